package pc

// C09 part (ii): the messages on the emulator's path, field by field.
//   uplink:   the nasTestpacket constructors the emulator calls (src/stgutg/{ue,pdu,service}.go)
//             with rapid-drawn arguments -> bytes -> hand-written refnas parser -> intended values
//   downlink: hand-written refnas encoder -> bytes -> PlainNasDecode -> accessor values

import (
	"bytes"
	"encoding/base64"
	"encoding/hex"
	"fmt"
	"strings"
	"testing"

	"free5gclib/nas/nasTestpacket"
	"free5gclib/nas/nasType"
	"free5gclib/openapi/models"
	"pgregory.net/rapid"
	"tglib"

	"verifh/ev"
	"verifh/refnas"
)

type ulArgs struct {
	// subscriber identity (SUCI, null scheme) — built by refnas, handed to the constructor
	MCC  string `json:"mcc,omitempty"`
	MNC  string `json:"mnc,omitempty"`
	MSIN string `json:"msin,omitempty"`
	// GetRegistrationRequest
	RegType       uint8    `json:"reg_type,omitempty"`
	TglibCaps     bool     `json:"tglib_caps,omitempty"` // capabilities from tglib.RanUeContext, as the emulator does
	CipherAlg     uint8    `json:"cipher_alg,omitempty"`
	IntegAlg      uint8    `json:"integ_alg,omitempty"`
	SecCap        hexBytes `json:"sec_cap,omitempty"`  // else: UE security capability value (2..8 octets)
	Cap5GMM       hexBytes `json:"cap_5gmm,omitempty"` // nil = absent
	NSSAI         []string `json:"nssai,omitempty"`    // requested NSSAI: hex of each S-NSSAI value; nil = absent
	Container     hexBytes `json:"container,omitempty"`
	HasContainer  bool     `json:"has_container,omitempty"`
	UplinkStatus  hexBytes `json:"uplink_status,omitempty"`
	// GetAuthenticationResponse
	RES hexBytes `json:"res,omitempty"`
	EAP hexBytes `json:"eap,omitempty"`
	// GetRegistrationComplete
	SOR hexBytes `json:"sor,omitempty"`
	// GetUlNasTransport_*
	PSI     uint8  `json:"psi,omitempty"`
	ReqType uint8  `json:"req_type,omitempty"`
	DNN     string `json:"dnn,omitempty"`
	SST     uint8  `json:"sst,omitempty"`
	SD      string `json:"sd,omitempty"` // 6 hex digits, or "" (observation class only)
	// GetServiceRequest
	ServiceType uint8 `json:"service_type,omitempty"`
	// GetDeregistrationRequest
	AccessType uint8 `json:"access_type,omitempty"`
	SwitchOff  uint8 `json:"switch_off,omitempty"`
	KSI        uint8 `json:"ksi,omitempty"`
}

type c09Case struct {
	Kind string `json:"kind"`
	UL   *ulArgs `json:"ul,omitempty"`
	DL   *dlMsg  `json:"dl,omitempty"`
}

var ulKinds = []string{"ul:RegistrationRequest", "ul:AuthenticationResponse", "ul:SecurityModeComplete", "ul:RegistrationComplete",
	"ul:PDUSessionEstablishmentRequest", "ul:PDUSessionReleaseRequest", "ul:PDUSessionReleaseComplete", "ul:ServiceRequest", "ul:DeregistrationRequest"}

func digits(t *rapid.T, n int, label string) string {
	b := make([]byte, n)
	for i := range b {
		b[i] = byte('0' + rapid.IntRange(0, 9).Draw(t, fmt.Sprintf("%s%d", label, i)))
	}
	return string(b)
}

func drawIdentity(t *rapid.T, a *ulArgs) {
	a.MCC = digits(t, 3, "mcc")
	a.MNC = digits(t, rapid.IntRange(2, 3).Draw(t, "mnc_len"), "mnc")
	a.MSIN = digits(t, rapid.IntRange(1, 15-3-len(a.MNC)).Draw(t, "msin_len"), "msin")
}

func drawUL(t *rapid.T, kind string) *ulArgs {
	a := &ulArgs{}
	maybe := func(label string, lo, hi int) hexBytes {
		if rapid.Bool().Draw(t, label+"_present") {
			return hexBytes(drawBytes(t, rapid.IntRange(lo, hi).Draw(t, label+"_len"), label))
		}
		return nil
	}
	switch kind {
	case "ul:RegistrationRequest":
		drawIdentity(t, a)
		a.RegType = uint8(rapid.IntRange(1, 7).Draw(t, "reg_type"))
		if a.TglibCaps = rapid.Bool().Draw(t, "tglib_caps"); a.TglibCaps {
			a.CipherAlg = uint8(rapid.IntRange(0, 3).Draw(t, "cipher"))
			a.IntegAlg = uint8(rapid.IntRange(0, 3).Draw(t, "integ"))
			if rapid.Bool().Draw(t, "cap5gmm") {
				a.Cap5GMM = hexBytes{0x07} // what tglib.Get5GMMCapability carries
			}
		} else {
			a.SecCap = hexBytes(drawBytes(t, rapid.IntRange(2, 8).Draw(t, "seccap_len"), "seccap"))
			a.Cap5GMM = maybe("cap5gmm", 1, 13)
		}
		if rapid.Bool().Draw(t, "nssai_present") {
			a.NSSAI = []string{}
			for i, n := 0, rapid.IntRange(1, 8).Draw(t, "nssai_n"); i < n; i++ {
				l := rapid.SampledFrom([]int{1, 4, 2, 5, 8}).Draw(t, fmt.Sprintf("nssai%d_len", i))
				a.NSSAI = append(a.NSSAI, hex.EncodeToString(drawBytes(t, l, fmt.Sprintf("nssai%d", i))))
			}
		}
		if a.HasContainer = rapid.Bool().Draw(t, "container_present"); a.HasContainer {
			a.Container = hexBytes(drawBytes(t, rapid.IntRange(1, 300).Draw(t, "container_len"), "container"))
		}
		a.UplinkStatus = maybe("uplink", 2, 2)
	case "ul:AuthenticationResponse":
		if rapid.IntRange(0, 4).Draw(t, "eap") == 0 {
			a.EAP = hexBytes(drawBytes(t, rapid.IntRange(4, 300).Draw(t, "eap_len"), "eap"))
		} else {
			a.RES = hexBytes(drawBytes(t, 16, "res"))
		}
	case "ul:SecurityModeComplete":
		if a.HasContainer = rapid.IntRange(0, 5).Draw(t, "container_present") != 0; a.HasContainer {
			a.Container = hexBytes(drawBytes(t, rapid.IntRange(1, 600).Draw(t, "container_len"), "container"))
		}
	case "ul:RegistrationComplete":
		a.SOR = maybe("sor", 1, 40)
	case "ul:PDUSessionEstablishmentRequest", "ul:PDUSessionReleaseComplete":
		a.PSI = rapid.Uint8().Draw(t, "psi")
		a.ReqType = uint8(rapid.IntRange(1, 7).Draw(t, "req_type"))
		switch rapid.IntRange(0, 5).Draw(t, "dnn_kind") {
		case 0:
			a.DNN = "internet"
		case 1:
			a.DNN = "" // constructor omits the IE
		default:
			// one label, or several, upper and lower case (a DNN is compared as it is written; it is not the codec's
			// business to fold it), with or without an operator identifier behind the network identifier
			a.DNN = rapid.OneOf(rapid.StringMatching(`[a-z0-9-]{1,63}`), rapid.StringMatching(`[A-Za-z0-9-]{1,20}`),
				rapid.StringMatching(`[A-Za-z][A-Za-z0-9-]{0,8}(\.[A-Za-z0-9][A-Za-z0-9-]{0,8}){1,3}`),
				rapid.StringMatching(`[A-Za-z0-9]{1,12}\.mnc[0-9]{3}\.mcc[0-9]{3}\.gprs`)).Draw(t, "dnn")
		}
		a.SST = rapid.Uint8().Draw(t, "sst")
		if rapid.IntRange(0, 7).Draw(t, "sd_absent") == 0 {
			a.SD = ""
		} else {
			a.SD = hex.EncodeToString(drawBytes(t, 3, "sd"))
			if rapid.Bool().Draw(t, "sd_upper") {
				a.SD = strings.ToUpper(a.SD)
			}
		}
	case "ul:PDUSessionReleaseRequest":
		a.PSI = rapid.Uint8().Draw(t, "psi")
	case "ul:ServiceRequest":
		a.ServiceType = uint8(rapid.IntRange(0, 15).Draw(t, "service_type"))
	case "ul:DeregistrationRequest":
		drawIdentity(t, a)
		a.AccessType = uint8(rapid.IntRange(1, 3).Draw(t, "access"))
		a.SwitchOff = uint8(rapid.IntRange(0, 1).Draw(t, "switch_off"))
		a.KSI = uint8(rapid.IntRange(0, 7).Draw(t, "ksi"))
	}
	return a
}

func genC09(t *rapid.T) c09Case {
	kinds := append(append([]string{}, ulKinds...), dlKinds...)
	k := kinds[drawIndex(t, len(kinds), "kind")]
	if strings.HasPrefix(k, "ul:") {
		return c09Case{Kind: k, UL: drawUL(t, k)}
	}
	return c09Case{Kind: k, DL: drawDL(t, k)}
}

func suciOf(a *ulArgs) ([]byte, error) {
	id := refnas.MobileIdentity{Type: refnas.IDSUCI, MCC: a.MCC, MNC: a.MNC, RoutingIndicator: "0", MSIN: a.MSIN}
	return id.Encode()
}

type failer func(key, format string, a ...interface{}) ev.Verdict

func c09Oracle(c c09Case) ev.Verdict {
	vd := ev.Verdict{Classes: []string{"kind:" + c.Kind}}
	fail := func(key, format string, a ...interface{}) ev.Verdict {
		vd.Key, vd.Err = key+"@"+c.Kind, fmt.Errorf(format, a...)
		return vd
	}
	if c.UL != nil {
		return c09UL(c, &vd, fail)
	}
	if c.DL != nil {
		return c09DL(c, &vd, fail)
	}
	vd.Skip = true
	return vd
}

// checkGeneric: whatever a constructor emits must also parse by the generic table with all
// lengths inside the Length column.
func checkGeneric(b []byte, name string) error {
	p, err := refnas.Parse(b)
	if err != nil {
		return err
	}
	if p.Def.Name != name {
		return fmt.Errorf("is a %s by Table 9.7, expected %s", p.Def.Name, name)
	}
	return p.CheckLengths()
}

func c09UL(c c09Case, vd *ev.Verdict, fail failer) ev.Verdict {
	a := c.UL
	eq := func(what string, got, want []byte) error {
		if (got == nil) != (want == nil) {
			return fmt.Errorf("%s: present=%v, intended present=%v", what, got != nil, want != nil)
		}
		if !bytes.Equal(got, want) {
			return fmt.Errorf("%s: %s on the wire, intended %s", what, short(got), short(want))
		}
		return nil
	}
	switch c.Kind {
	case "ul:RegistrationRequest":
		suci, err := suciOf(a)
		if err != nil {
			vd.Skip = true
			return *vd
		}
		var secCap *nasType.UESecurityCapability
		var cap5 *nasType.Capability5GMM
		wantSec := []byte(a.SecCap)
		if a.TglibCaps {
			ue := tglib.NewRanUeContext("imsi-"+a.MCC+a.MNC+a.MSIN, 1, a.CipherAlg, a.IntegAlg)
			secCap = ue.GetUESecurityCapability()
			wantSec = []byte{refnas.AlgBit(a.CipherAlg), refnas.AlgBit(a.IntegAlg)}
			if a.Cap5GMM != nil {
				cap5 = ue.Get5GMMCapability()
			}
			vd.Classes = append(vd.Classes, "args:tglib-capabilities")
		} else {
			secCap = &nasType.UESecurityCapability{Iei: 0x2E, Len: uint8(len(a.SecCap)), Buffer: append([]byte{}, a.SecCap...)}
			if a.Cap5GMM != nil {
				cap5 = &nasType.Capability5GMM{Iei: 0x10, Len: uint8(len(a.Cap5GMM))}
				copy(cap5.Octet[:], a.Cap5GMM)
			}
		}
		var nssai *nasType.RequestedNSSAI
		var wantNSSAI []byte
		if a.NSSAI != nil {
			wantNSSAI = []byte{}
			for _, h := range a.NSSAI {
				v, _ := hex.DecodeString(h)
				wantNSSAI = append(append(wantNSSAI, byte(len(v))), v...)
			}
			nssai = &nasType.RequestedNSSAI{Iei: 0x2F, Len: uint8(len(wantNSSAI)), Buffer: append([]byte{}, wantNSSAI...)}
		}
		var cont []byte
		if a.HasContainer {
			cont = append([]byte{}, a.Container...)
		}
		var uds *nasType.UplinkDataStatus
		if a.UplinkStatus != nil {
			uds = &nasType.UplinkDataStatus{Iei: 0x40, Len: uint8(len(a.UplinkStatus)), Buffer: append([]byte{}, a.UplinkStatus...)}
		}
		out := nasTestpacket.GetRegistrationRequest(a.RegType, nasType.MobileIdentity5GS{Len: uint16(len(suci)), Buffer: append([]byte{}, suci...)},
			nssai, secCap, cap5, cont, uds)
		m, err := refnas.ParseRegistrationRequest(out)
		if err != nil {
			return fail("parse", "%v (bytes %s)", err, short(out))
		}
		if err := checkGeneric(out, "RegistrationRequest"); err != nil {
			return fail("generic", "%v (bytes %s)", err, short(out))
		}
		// the constructor fixes: plain, native security context, "no key available" (7), follow-on request pending
		if m.SHT != 0 || m.RegType != a.RegType&7 || !m.FOR || m.KSI != 7 || m.TSC {
			return fail("header-fields", "security header %d, registration type %d (intended %d), FOR %v, ngKSI %d tsc %v (intended 7, native)", m.SHT, m.RegType, a.RegType&7, m.FOR, m.KSI, m.TSC)
		}
		id, err := refnas.ParseMobileIdentity(m.Identity)
		if err != nil || id.Type != refnas.IDSUCI || id.MCC != a.MCC || id.MNC != a.MNC || id.MSIN != a.MSIN || id.ProtectionScheme != 0 || id.RoutingIndicator != "0" {
			return fail("identity", "5GS mobile identity %x parses to %+v (%v), intended SUCI %s/%s/%s", m.Identity, id, err, a.MCC, a.MNC, a.MSIN)
		}
		var wantCap5 []byte
		if a.Cap5GMM != nil {
			wantCap5 = a.Cap5GMM
		}
		for _, e := range []error{eq("UE security capability", m.UESecCap, wantSec), eq("5GMM capability", m.Cap5GMM, wantCap5),
			eq("requested NSSAI", m.RequestedNSSAI, wantNSSAI), eq("NAS message container", m.NASContainer, cont),
			eq("uplink data status", m.UplinkDataStatus, []byte(a.UplinkStatus))} {
			if e != nil {
				return fail("ie", "%v (bytes %s)", e, short(out))
			}
		}
		if sc, err := refnas.ParseUESecurityCapability(m.UESecCap); err != nil || (a.TglibCaps && (sc.EA5G != refnas.AlgBit(a.CipherAlg) || sc.IA5G != refnas.AlgBit(a.IntegAlg))) {
			return fail("seccap", "UE security capability %x: %+v %v", m.UESecCap, sc, err)
		}
		if wantNSSAI != nil {
			for p := 0; p < len(m.RequestedNSSAI); {
				n := int(m.RequestedNSSAI[p])
				if _, err := refnas.ParseSNSSAI(m.RequestedNSSAI[p+1 : p+1+n]); err != nil {
					return fail("nssai", "%v", err)
				}
				p += 1 + n
			}
		}
		if m.NonCurrentKSI != nil || m.LastVisitedTAI != nil || m.S1UENetCap != nil || m.PDUSessionStatus != nil || m.MICO != nil || m.UEStatus != nil ||
			m.AdditionalGUTI != nil || m.AllowedPDUSessionStatus != nil || m.UsageSetting != nil || m.RequestedDRX != nil || m.EPSNASContainer != nil ||
			m.LADNIndication != nil || m.PayloadContainer != nil || m.NetworkSlicingInd != nil || m.UpdateType != nil {
			return fail("extra-ie", "an IE that was not asked for is on the wire: %s", short(out))
		}
		vd.NT = a.RegType != 1 && a.Cap5GMM != nil && a.NSSAI != nil && a.HasContainer && a.UplinkStatus != nil
		if len(a.MNC) == 3 {
			vd.Classes = append(vd.Classes, "mnc3")
		}
	case "ul:AuthenticationResponse":
		var out []byte
		if a.RES != nil {
			out = nasTestpacket.GetAuthenticationResponse(append([]byte{}, a.RES...), "")
			vd.Classes = append(vd.Classes, "auth:res")
		} else {
			out = nasTestpacket.GetAuthenticationResponse(nil, base64.StdEncoding.EncodeToString(a.EAP))
			vd.Classes = append(vd.Classes, "auth:eap")
		}
		m, err := refnas.ParseAuthenticationResponse(out)
		if err != nil {
			return fail("parse", "%v (bytes %s)", err, short(out))
		}
		if err := checkGeneric(out, "AuthenticationResponse"); err != nil {
			return fail("generic", "%v (bytes %s)", err, short(out))
		}
		var wantRES, wantEAP []byte
		if a.RES != nil {
			wantRES = a.RES
		} else {
			wantEAP = a.EAP
		}
		if e := eq("authentication response parameter", m.RES, wantRES); e != nil {
			return fail("ie", "%v (bytes %s)", e, short(out))
		}
		if e := eq("EAP message", m.EAP, wantEAP); e != nil {
			return fail("ie", "%v (bytes %s)", e, short(out))
		}
		vd.NT = m.SHT == 0
	case "ul:SecurityModeComplete":
		var cont []byte
		if a.HasContainer {
			cont = append([]byte{}, a.Container...)
		}
		out := nasTestpacket.GetSecurityModeComplete(cont)
		m, err := refnas.ParseSecurityModeComplete(out)
		if err != nil {
			return fail("parse", "%v (bytes %s)", err, short(out))
		}
		if err := checkGeneric(out, "SecurityModeComplete"); err != nil {
			return fail("generic", "%v (bytes %s)", err, short(out))
		}
		if e := eq("NAS message container", m.NASContainer, cont); e != nil {
			return fail("ie", "%v (bytes %s)", e, short(out))
		}
		// the constructor always adds an IMEISV: type of identity IMEISV (5), even number of digits
		if len(m.IMEISV) != 9 || m.IMEISV[0]&7 != refnas.IDIMEISV || m.IMEISV[0]&8 != 0 {
			return fail("imeisv", "IMEISV IE %x: 9 octets, type of identity 5, even indication expected", m.IMEISV)
		}
		vd.NT = a.HasContainer && len(cont) > 0
	case "ul:RegistrationComplete":
		var sor []byte
		if a.SOR != nil {
			sor = append([]byte{}, a.SOR...)
		}
		out := nasTestpacket.GetRegistrationComplete(sor)
		m, err := refnas.ParseRegistrationComplete(out)
		if err != nil {
			return fail("parse", "%v (bytes %s)", err, short(out))
		}
		if e := eq("SOR transparent container", m.SOR, sor); e != nil {
			return fail("ie", "%v (bytes %s)", e, short(out))
		}
		if m.SHT != 0 || (sor == nil && !bytes.Equal(out, []byte{0x7E, 0x00, 0x43})) {
			return fail("header-fields", "bytes %s", short(out))
		}
		vd.NT = sor != nil
	case "ul:PDUSessionEstablishmentRequest", "ul:PDUSessionReleaseRequest", "ul:PDUSessionReleaseComplete":
		return c09ULTransport(c, vd, fail)
	case "ul:ServiceRequest":
		out := nasTestpacket.GetServiceRequest(a.ServiceType)
		m, err := refnas.ParseServiceRequest(out)
		if err != nil {
			return fail("parse", "%v (bytes %s)", err, short(out))
		}
		if err := checkGeneric(out, "ServiceRequest"); err != nil {
			return fail("generic", "%v (bytes %s)", err, short(out))
		}
		// constructor: ngKSI 1 native; 5G-S-TMSI with AMF set 0xFE<<2, pointer 0, 5G-TMSI 1
		if m.SHT != 0 || m.ServiceType != a.ServiceType&0xF || m.KSI != 1 || m.TSC {
			return fail("header-fields", "service type %d (intended %d), ngKSI %d tsc %v (intended 1, native)", m.ServiceType, a.ServiceType&0xF, m.KSI, m.TSC)
		}
		// Figure 9.11.3.4.5 from octet 5 on: AMF set ID (10 bits), AMF pointer (6 bits), 5G-TMSI (4 octets);
		// read here without looking at octet 4 (type of identity), see the observation below
		if len(m.STMSI) != 7 {
			return fail("stmsi", "5G-S-TMSI has %d octets", len(m.STMSI))
		}
		set := uint16(m.STMSI[1])<<2 | uint16(m.STMSI[2]>>6)
		ptr := m.STMSI[2] & 0x3F
		if set != 0xFE<<2 || ptr != 0 || !bytes.Equal(m.STMSI[3:], []byte{0, 0, 0, 1}) {
			return fail("stmsi", "5G-S-TMSI %x: AMF set %#x pointer %d TMSI %x, intended set %#x pointer 0 TMSI 00000001", m.STMSI, set, ptr, m.STMSI[3:], 0xFE<<2)
		}
		// observation, not a verdict (DESIGN §3.5): the constructor leaves octet 4 (1111 0 100) at zero
		vd.Classes = append(vd.Classes, fmt.Sprintf("observation:5G-S-TMSI-octet4=%#02x(spec:0xf4)", m.STMSI[0]))
		var wantUDS, wantAllowed []byte
		switch a.ServiceType {
		case 1: // data
			wantUDS = []byte{0x00, 0x04}
		case 2: // mobile terminated services
			wantAllowed = []byte{0x00, 0x08}
		}
		if e := eq("uplink data status", m.UplinkDataStatus, wantUDS); e != nil {
			return fail("ie", "%v", e)
		}
		if e := eq("allowed PDU session status", m.AllowedPDUSessionStatus, wantAllowed); e != nil {
			return fail("ie", "%v", e)
		}
		if m.PDUSessionStatus != nil || m.NASContainer != nil {
			return fail("extra-ie", "bytes %s", short(out))
		}
		vd.NT = a.ServiceType != 1
		vd.Classes = append(vd.Classes, fmt.Sprintf("service-type:%d", a.ServiceType&0xF))
	case "ul:DeregistrationRequest":
		suci, err := suciOf(a)
		if err != nil {
			vd.Skip = true
			return *vd
		}
		out := nasTestpacket.GetDeregistrationRequest(a.AccessType, a.SwitchOff, a.KSI, nasType.MobileIdentity5GS{Len: uint16(len(suci)), Buffer: append([]byte{}, suci...)})
		m, err := refnas.ParseDeregistrationRequest(out)
		if err != nil {
			return fail("parse", "%v (bytes %s)", err, short(out))
		}
		if err := checkGeneric(out, "DeregistrationRequestUEOriginatingDeregistration"); err != nil {
			return fail("generic", "%v (bytes %s)", err, short(out))
		}
		if m.SHT != 0 || m.AccessType != a.AccessType&3 || m.SwitchOff != (a.SwitchOff&1 == 1) || m.ReRegister || m.KSI != a.KSI&7 {
			return fail("header-fields", "access type %d (intended %d), switch off %v (intended %d), re-registration %v, ngKSI %d (intended %d)",
				m.AccessType, a.AccessType&3, m.SwitchOff, a.SwitchOff, m.ReRegister, m.KSI, a.KSI&7)
		}
		// the constructor derives TSC from the same argument (low bit); recorded, not judged
		vd.Classes = append(vd.Classes, fmt.Sprintf("observation:dereg-tsc=%v", m.TSC))
		if !bytes.Equal(m.Identity, suci) {
			return fail("identity", "5GS mobile identity %x, intended %x", m.Identity, suci)
		}
		vd.NT = a.AccessType != 1 && a.KSI != 4
	}
	return *vd
}

// ePCO the establishment request constructor asks for (TS 24.008 10.5.6.3, Table 10.5.154):
// configuration protocol octet 1000 0000, then container identifiers 000AH (IP address
// allocation via NAS signalling), 000DH (DNS server IPv4 address request), 0003H (DNS server
// IPv6 address request), each with a zero length.
var wantEPCO = []byte{0x80, 0x00, 0x0A, 0x00, 0x00, 0x0D, 0x00, 0x00, 0x03, 0x00}

func c09ULTransport(c c09Case, vd *ev.Verdict, fail failer) ev.Verdict {
	a := c.UL
	var out []byte
	var sn *models.Snssai
	withReq := c.Kind != "ul:PDUSessionReleaseRequest"
	if withReq {
		sn = &models.Snssai{Sst: int32(a.SST), Sd: a.SD}
	}
	switch c.Kind {
	case "ul:PDUSessionEstablishmentRequest":
		out = nasTestpacket.GetUlNasTransport_PduSessionEstablishmentRequest(a.PSI, a.ReqType, a.DNN, sn)
	case "ul:PDUSessionReleaseRequest":
		out = nasTestpacket.GetUlNasTransport_PduSessionReleaseRequest(a.PSI)
	case "ul:PDUSessionReleaseComplete":
		out = nasTestpacket.GetUlNasTransport_PduSessionReleaseComplete(a.PSI, a.ReqType, a.DNN, sn)
	}
	m, err := refnas.ParseULNASTransport(out)
	if err != nil {
		return fail("parse", "%v (bytes %s)", err, short(out))
	}
	if err := checkGeneric(out, "ULNASTransport"); err != nil {
		return fail("generic", "%v (bytes %s)", err, short(out))
	}
	if m.SHT != 0 || m.PayloadType != 1 {
		return fail("header-fields", "security header %d, payload container type %d (intended 1, N1 SM information)", m.SHT, m.PayloadType)
	}
	if len(m.PSI) != 1 || m.PSI[0] != a.PSI {
		return fail("psi", "PDU session ID IE %x, intended %d", m.PSI, a.PSI)
	}
	if m.OldPSI != nil || m.AdditionalInfo != nil {
		return fail("extra-ie", "bytes %s", short(out))
	}
	if withReq {
		if len(m.RequestType) != 1 || m.RequestType[0] != a.ReqType&7 {
			return fail("request-type", "request type IE %x, intended %d", m.RequestType, a.ReqType&7)
		}
		if a.DNN == "" {
			if m.DNN != nil {
				return fail("dnn", "DNN IE %x for an empty DNN argument", m.DNN)
			}
		} else {
			dnn, err := refnas.ParseDNN(m.DNN)
			if err != nil || dnn != a.DNN {
				return fail("dnn", "DNN IE %x parses to %q (%v), intended %q", m.DNN, dnn, err, a.DNN)
			}
		}
		s, err := refnas.ParseSNSSAI(m.SNSSAI)
		if err != nil || s.SST != a.SST {
			return fail("snssai", "S-NSSAI IE %x: %+v %v, intended SST %d", m.SNSSAI, s, err, a.SST)
		}
		if a.SD != "" {
			sd, _ := hex.DecodeString(a.SD)
			if s.SD == nil || !bytes.Equal(s.SD[:], sd) || s.MappedSST != nil {
				return fail("snssai", "S-NSSAI IE %x, intended SST %d SD %s", m.SNSSAI, a.SST, a.SD)
			}
			vd.Classes = append(vd.Classes, "snssai:sd-present")
		} else {
			// observation only: an empty SD string is sent as SD 000000 (length 4), not as an
			// S-NSSAI without SD (length 1); the shipped configuration always has an SD
			vd.Classes = append(vd.Classes, fmt.Sprintf("observation:snssai-empty-sd-sent-as-len%d", len(m.SNSSAI)))
		}
	} else if m.RequestType != nil || m.DNN != nil || m.SNSSAI != nil {
		return fail("extra-ie", "bytes %s", short(out))
	}
	// the 5GSM message inside the payload container
	switch c.Kind {
	case "ul:PDUSessionEstablishmentRequest":
		sm, err := refnas.ParsePDUSessionEstablishmentRequest(m.Payload)
		if err != nil {
			return fail("parse-payload", "%v (payload %s)", err, short(m.Payload))
		}
		if err := checkGeneric(m.Payload, "PDUSessionEstablishmentRequest"); err != nil {
			return fail("generic-payload", "%v (payload %s)", err, short(m.Payload))
		}
		// constructor: PTI 1, full data rate both ways, PDU session type IPv4, the ePCO above
		if sm.PSI != a.PSI || sm.PTI != 1 || sm.MaxRateUL != 0xFF || sm.MaxRateDL != 0xFF {
			return fail("payload-fields", "PSI %d (intended %d) PTI %d max rates %#x/%#x", sm.PSI, a.PSI, sm.PTI, sm.MaxRateUL, sm.MaxRateDL)
		}
		if len(sm.PDUType) != 1 || sm.PDUType[0] != 1 || !bytes.Equal(sm.EPCO, wantEPCO) {
			return fail("payload-ies", "PDU session type %x (intended IPv4 = 1), ePCO %x (intended %x)", sm.PDUType, sm.EPCO, wantEPCO)
		}
		if sm.SSCMode != nil || sm.Cap5GSM != nil || sm.MaxPacketFilters != nil || sm.AlwaysOnRequested != nil || sm.SMPDUDNContainer != nil {
			return fail("extra-ie", "payload %s", short(m.Payload))
		}
	default:
		sm, err := refnas.ParsePDUSessionRelease(m.Payload, c.Kind == "ul:PDUSessionReleaseComplete")
		if err != nil {
			return fail("parse-payload", "%v (payload %s)", err, short(m.Payload))
		}
		// PTI: an assigned value (1..254; 0 = "no procedure transaction identity assigned" and 255 = reserved are
		// answered with 5GSM STATUS #81 in a UE-requested transaction, TS 24.501 7.3.1), and the release complete
		// repeats the one of the release request (the release command echoes it)
		if sm.PSI != a.PSI || sm.PTI < 1 || sm.PTI > 254 || sm.Cause != nil || sm.EPCO != nil || len(m.Payload) != 4 {
			return fail("payload-fields", "payload %s, intended 2e %02x <PTI 1..254> %s", short(m.Payload), a.PSI, map[bool]string{true: "d4", false: "d1"}[sm.Complete])
		}
		if req := nasTestpacket.GetPduSessionReleaseRequest(uint8(a.PSI)); sm.Complete && (len(req) != 4 || int(req[2]) != int(sm.PTI)) {
			return fail("payload-fields", "release complete carries PTI %d, the release request built for the same session %x", sm.PTI, req)
		}
	}
	vd.NT = a.PSI != 0 && (!withReq || (a.ReqType != 1 && a.DNN != "internet" && a.SD != "010203"))
	if a.PSI > 15 {
		vd.Classes = append(vd.Classes, "psi>15")
	}
	return *vd
}

func TestC09_OnPath(t *testing.T) {
	r := ev.New(t, "C09", "TestC09_OnPath")
	ev.Run(t, r, genC09, c09Oracle)
}
