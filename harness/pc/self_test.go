package pc

// Known-answer tests of the reference (refnas) itself. The byte strings are derived by hand
// from the figures and tables of TS 24.501 / TS 24.008 / TS 23.003 quoted next to them; none
// of them is produced by the library under test. The driver runs ^TestSelf before every check.

import (
	"bytes"
	"encoding/hex"
	"fmt"
	"strings"
	"testing"

	"verifh/refnas"
)

func unhex(s string) []byte {
	b, err := hex.DecodeString(strings.NewReplacer(" ", "", "\n", "", "\t", "").Replace(s))
	if err != nil {
		panic(err)
	}
	return b
}

// TestSelfNASTables: internal consistency of the typed-in tables with rules that come from
// other parts of the specifications (so that a typing slip is caught before it is believed).
func TestSelfNASTables(t *testing.T) {
	if n := len(refnas.Messages); n != 45 {
		t.Fatalf("%d messages in the table, 45 expected", n)
	}
	mm, sm := 0, 0
	seen := map[[2]uint8]string{}
	for _, d := range refnas.Messages {
		switch d.EPD {
		case refnas.EPD5GMM:
			mm++
		case refnas.EPD5GSM:
			sm++
		default:
			t.Errorf("%s: EPD %#x", d.Name, d.EPD)
		}
		if d.HasMT {
			k := [2]uint8{d.EPD, d.MT}
			if o, dup := seen[k]; dup {
				t.Errorf("%s and %s share message type %#x", o, d.Name, d.MT)
			}
			seen[k] = d.Name
			// TS 24.501 9.7: bits 8..7 of the message type are 01 for 5GMM and 11 for 5GSM
			if d.EPD == refnas.EPD5GMM && d.MT>>6 != 1 || d.EPD == refnas.EPD5GSM && d.MT>>6 != 3 {
				t.Errorf("%s: message type %#x has the wrong bits 8..7", d.Name, d.MT)
			}
		}
		full := map[uint8]string{}
		nib := map[uint8]string{}
		for i := range d.Opts {
			o := &d.Opts[i]
			switch o.Fmt {
			case refnas.TV1:
				// TS 24.007 11.2.4: a type 1 IEI has bit 8 set, i.e. the nibble is 8..F
				if o.IEI < 8 || o.IEI > 0xF {
					t.Errorf("%s/%s: type-1 IEI %#x", d.Name, o.Name, o.IEI)
				}
				if p, dup := nib[o.IEI]; dup {
					t.Errorf("%s: %s and %s share IEI %X-", d.Name, p, o.Name, o.IEI)
				}
				nib[o.IEI] = o.Name
			case refnas.TV, refnas.TLV, refnas.TLVE:
				if o.IEI >= 0x80 || o.IEI == 0 {
					t.Errorf("%s/%s: IEI %#x of a type 3/4/6 IE must have bit 8 clear", d.Name, o.Name, o.IEI)
				}
				// TS 24.007 11.2.4: in 5GS an IEI with bits 7..5 = 111 (0x70..0x7F) announces a
				// type 6 (TLV-E) IE, and only those
				for _, iei := range []uint8{o.IEI, o.AltIEI} {
					if iei == 0 {
						continue
					}
					if (iei&0x70 == 0x70) != (o.Fmt == refnas.TLVE) {
						t.Errorf("%s/%s: IEI %#x does not fit format %v (TS 24.007: 0x7x <=> TLV-E)", d.Name, o.Name, iei, o.Fmt)
					}
				}
				if p, dup := full[o.IEI]; dup {
					t.Errorf("%s: %s and %s share IEI %#x", d.Name, p, o.Name, o.IEI)
				}
				full[o.IEI] = o.Name
			default:
				t.Errorf("%s/%s: format %v", d.Name, o.Name, o.Fmt)
			}
			mn, mx := o.ValueLen()
			if mn < 0 || mx < mn {
				t.Errorf("%s/%s: value length range %d..%d", d.Name, o.Name, mn, mx)
			}
		}
		if got := d.Mand[0]; got.Fixed != int(d.EPD) {
			t.Errorf("%s: first octet is not the EPD", d.Name)
		}
	}
	if mm != 29 || sm != 16 {
		t.Errorf("%d 5GMM and %d 5GSM messages, 29 and 16 expected", mm, sm)
	}
	all, un := refnas.NumPairs()
	if all != 159 || un != 2 {
		t.Errorf("%d (message, optional IE) pairs, %d unadjudicated; 159 and 2 expected", all, un)
	}
	// spot checks of Table 9.7.1 / 9.7.2 rows against independent knowledge of the bit patterns
	for _, c := range []struct {
		name string
		mt   uint8
	}{{"RegistrationRequest", 0b01000001}, {"ServiceRequest", 0b01001100}, {"AuthenticationRequest", 0b01010110},
		{"SecurityModeCommand", 0b01011101}, {"ULNASTransport", 0b01100111}, {"DLNASTransport", 0b01101000},
		{"PDUSessionEstablishmentRequest", 0b11000001}, {"PDUSessionReleaseComplete", 0b11010100}, {"Status5GSM", 0b11010110}} {
		if d := refnas.ByName(c.name); d == nil || d.MT != c.mt {
			t.Errorf("%s: message type", c.name)
		}
	}
}

// hand-derived messages -------------------------------------------------------------------

// REGISTRATION REQUEST (8.2.6): initial registration, follow-on request pending, no key
// (ngKSI 7, native), SUCI of IMSI 001 01 0000000001 (routing indicator 0, null scheme),
// UE security capability 5G-EA0 + 128-5G-IA2.
//   7E 00 41                    EPD, plain, message type 0100 0001
//   79                          ngKSI 0111 | FOR 1, registration type 001
//   00 0D                       length of 5GS mobile identity
//   01                          SUPI format IMSI (000), type of identity SUCI (001)
//   00 F1 10                    MCC 001, MNC 01: 0|0, F|1, 1|0
//   F0 FF                       routing indicator "0": digit2=F|digit1=0, F|F
//   00 00                       protection scheme null, home network public key identifier 0
//   00 00 00 00 10              MSIN 0000000001, two digits per octet, low nibble first
//   2E 02 80 20                 UE security capability: EA0 (bit 8), 128-5G-IA2 (bit 6)
const katRegReq = "7E004179 000D 01 00F110 F0FF 00 00 0000000010 2E028020"

// AUTHENTICATION REQUEST (8.2.1): ngKSI 1, ABBA 0000, RAND, AUTN.
const katAuthReq = "7E0056 01 020000 21 000102030405060708090A0B0C0D0E0F 2010 F0F1F2F3F4F5F6F7F8F9FAFBFCFDFEFF"

// SECURITY MODE COMMAND (8.2.25): 5G-EA0 / 128-5G-IA2, ngKSI 0, replayed capability 80 20,
// IMEISV requested (E-, value 001), additional 5G security information RINMR=1 (bit 2).
const katSMC = "7E005D 02 00 028020 E1 360102"

// PDU SESSION ESTABLISHMENT ACCEPT (8.3.2): PSI 10, PTI 1, IPv4 / SSC mode 1, one QoS rule
// (opaque here), session-AMBR 100 Mbit/s both ways (unit 6 = 1 Mbit/s), PDU address
// 10.60.0.1, S-NSSAI SST 1 SD 010203, QoS flow descriptions, ePCO with a DNS server, DNN
// "internet".
const katEstAcc = "2E0A01C2 11 0009 0100063131010 1FF01 06 060064060064" +
	" 2905 01 0A3C0001  2204 01010203  790006 092041010109  7B0008 80000D0408080808  2509 08696E7465726E6574"

func TestSelfNASGeneric(t *testing.T) {
	// generic parser on the hand-derived byte strings
	type want struct {
		goField string
		val     string
	}
	for _, c := range []struct {
		name, hex string
		mand      []string // values of the message specific mandatory elements (after the header)
		opts      []want
	}{
		{"RegistrationRequest", katRegReq, []string{"79", "0100F110F0FF00000000000010"}, []want{{"UESecurityCapability", "8020"}}},
		{"AuthenticationRequest", katAuthReq, []string{"01", "0000"},
			[]want{{"AuthenticationParameterRAND", "000102030405060708090A0B0C0D0E0F"}, {"AuthenticationParameterAUTN", "F0F1F2F3F4F5F6F7F8F9FAFBFCFDFEFF"}}},
		{"SecurityModeCommand", katSMC, []string{"02", "00", "8020"}, []want{{"IMEISVRequest", "01"}, {"Additional5GSecurityInformation", "02"}}},
		{"PDUSessionEstablishmentAccept", katEstAcc, []string{"11", "01000631310101FF01", "060064060064"},
			[]want{{"PDUAddress", "010A3C0001"}, {"SNSSAI", "01010203"}, {"AuthorizedQosFlowDescriptions", "092041010109"},
				{"ExtendedProtocolConfigurationOptions", "80000D0408080808"}, {"DNN", "08696E7465726E6574"}}},
	} {
		b := unhex(c.hex)
		p, err := refnas.Parse(b)
		if err != nil {
			t.Fatalf("%s: %v", c.name, err)
		}
		if p.Def.Name != c.name {
			t.Fatalf("%s identified as %s", c.name, p.Def.Name)
		}
		hl := len(p.Def.Mand) - len(c.mand)
		for i, m := range c.mand {
			if !bytes.Equal(p.Mand[hl+i], unhex(m)) {
				t.Errorf("%s mandatory %s: %x, want %s", c.name, p.Def.Mand[hl+i].Name, p.Mand[hl+i], m)
			}
		}
		if len(p.Opts) != len(c.opts) {
			t.Fatalf("%s: %d optional IEs, want %d", c.name, len(p.Opts), len(c.opts))
		}
		v := &refnas.Value{Def: p.Def, Mand: p.Mand}
		for i, w := range c.opts {
			if p.Opts[i].Opt.Go != w.goField || !bytes.Equal(p.Opts[i].Val, unhex(w.val)) {
				t.Errorf("%s IE %d: %s %x, want %s %s", c.name, i, p.Opts[i].Opt.Go, p.Opts[i].Val, w.goField, w.val)
			}
			v.Opts = append(v.Opts, refnas.IE{IEI: p.Opts[i].IEI, Val: p.Opts[i].Val})
		}
		if err := p.CheckLengths(); err != nil {
			t.Errorf("%s: %v", c.name, err)
		}
		// and the generic encoder gives the bytes back
		enc, err := v.Encode()
		if err != nil || !bytes.Equal(enc, b) {
			t.Errorf("%s: generic encoder %x (%v), want %x", c.name, enc, err, b)
		}
	}
	// the generic encoder from scratch: AUTHENTICATION RESPONSE with a 16-octet RES*
	d := refnas.ByName("AuthenticationResponse")
	v := refnas.NewValue(d)
	v.Opts = []refnas.IE{{IEI: 0x2D, Val: unhex("A0A1A2A3A4A5A6A7A8A9AAABACADAEAF")}}
	if enc, err := v.Encode(); err != nil || !bytes.Equal(enc, unhex("7E0057 2D10 A0A1A2A3A4A5A6A7A8A9AAABACADAEAF")) {
		t.Errorf("AuthenticationResponse: %x %v", enc, err)
	}
	// TLV-E and type-1 side by side: UL NAS TRANSPORT carrying 5 payload octets, PDU session
	// ID 5, request type "initial request" (8-, 001), DNN
	d = refnas.ByName("ULNASTransport")
	v = refnas.NewValue(d)
	v.Mand[3] = []byte{0x01}
	v.Mand[4] = unhex("2E0500D1AA")
	v.Opts = []refnas.IE{{IEI: 0x12, Val: []byte{5}}, {IEI: 0x8, Val: []byte{1}}, {IEI: 0x25, Val: unhex("08696E7465726E6574")}}
	wantUL := unhex("7E0067 01 0005 2E0500D1AA 1205 81 2509 08696E7465726E6574")
	if enc, err := v.Encode(); err != nil || !bytes.Equal(enc, wantUL) {
		t.Errorf("ULNASTransport: %x %v", enc, err)
	}
	// errors the parser must raise
	for _, bad := range []string{
		"7E0041",            // truncated mandatory part
		"7E004179000D0100",  // LV-E length beyond the message
		"7E0057 2D10 A0A1",  // TLV length beyond the message
		"7E0057 99",         // type-1 IEI that the message does not have
		"7E0057 2E028020",   // IEI of another message
		"7E00FF",            // unknown message type
		"2E0001C0",          // unknown 5GSM message type
		"6E000041",          // unknown EPD
		"7E0067 01 0001 00 7A000100", // TLV-E IEI not in UL NAS TRANSPORT
	} {
		if _, err := refnas.Parse(unhex(bad)); err == nil {
			t.Errorf("parser accepted %s", bad)
		}
	}
	// length-field widths: a TLV-E value of 300 octets takes 01 2C, an LV-E of 256 takes 01 00
	d = refnas.ByName("AuthenticationReject")
	v = refnas.NewValue(d)
	v.Opts = []refnas.IE{{IEI: 0x78, Val: make([]byte, 300)}}
	enc, _ := v.Encode()
	if len(enc) != 3+3+300 || enc[3] != 0x78 || enc[4] != 0x01 || enc[5] != 0x2C {
		t.Errorf("TLV-E length field: % x", enc[:8])
	}
	if _, err := refnas.EncodeIE(refnas.ByName("ULNASTransport").OptByGo("DNN"), make([]byte, 256), 0); err == nil {
		t.Errorf("a 256-octet value was accepted for a one-octet length field")
	}
}

func TestSelfNASFields(t *testing.T) {
	// PLMN, TS 24.008 10.5.1.3 (well-known encodings: 208/93 -> 02 F8 39, 310/260 -> 13 00 62)
	for _, c := range []struct{ mcc, mnc, hex string }{
		{"001", "01", "00F110"}, {"208", "93", "02F839"}, {"310", "260", "130062"}, {"999", "999", "999999"}, {"123", "456", "216354"}, {"123", "45", "21F354"},
	} {
		p, err := refnas.EncodePLMN(c.mcc, c.mnc)
		if err != nil || !bytes.Equal(p[:], unhex(c.hex)) {
			t.Errorf("PLMN %s/%s: %x %v, want %s", c.mcc, c.mnc, p, err, c.hex)
		}
		mcc, mnc, err := refnas.DecodePLMN(unhex(c.hex))
		if err != nil || mcc != c.mcc || mnc != c.mnc {
			t.Errorf("PLMN %s: %s/%s %v", c.hex, mcc, mnc, err)
		}
	}
	// SUCI, TS 24.501 Figure 9.11.3.4.3/4 — the value derived in katRegReq, and an odd MSIN
	for _, c := range []struct {
		id  refnas.MobileIdentity
		hex string
	}{
		{refnas.MobileIdentity{Type: refnas.IDSUCI, MCC: "001", MNC: "01", RoutingIndicator: "0", MSIN: "0000000001"}, "0100F110F0FF00000000000010"},
		{refnas.MobileIdentity{Type: refnas.IDSUCI, MCC: "208", MNC: "93", RoutingIndicator: "0", MSIN: "0000007487"}, "0102F839F0FF00000000004778"},
		{refnas.MobileIdentity{Type: refnas.IDSUCI, MCC: "310", MNC: "260", RoutingIndicator: "1234", MSIN: "123456789"}, "0113006221430000 21436587F9"},
		{refnas.MobileIdentity{Type: refnas.IDSUCI, MCC: "001", MNC: "01", RoutingIndicator: "17", MSIN: "5"}, "0100F11071FF0000F5"},
		// 5G-GUTI, Figure 9.11.3.4.1: AMF identifier CAFE00 = region CA, set 11 1111 1000, pointer 00 0000
		{refnas.MobileIdentity{Type: refnas.IDGUTI, MCC: "208", MNC: "93", AMFRegionID: 0xCA, AMFSetID: 0x3F8, AMFPointer: 0, TMSI: 1}, "F202F839CAFE0000000001"},
		{refnas.MobileIdentity{Type: refnas.IDGUTI, MCC: "001", MNC: "01", AMFRegionID: 0x01, AMFSetID: 0x001, AMFPointer: 0x3F, TMSI: 0xDEADBEEF}, "F200F11001007FDEADBEEF"},
		// 5G-S-TMSI, Figure 9.11.3.4.5
		{refnas.MobileIdentity{Type: refnas.IDSTMSI, AMFSetID: 0x3F8, AMFPointer: 0, TMSI: 1}, "F4FE0000000001"},
		// IMEISV, Figure 9.11.3.4.4: 16 digits, even, end mark F
		{refnas.MobileIdentity{Type: refnas.IDIMEISV, Digits: "1234567890123456"}, "1532547698103254F6"},
	} {
		id := c.id
		enc, err := id.Encode()
		if err != nil || !bytes.Equal(enc, unhex(c.hex)) {
			t.Errorf("identity %+v: %x %v, want %s", c.id, enc, err, c.hex)
			continue
		}
		back, err := refnas.ParseMobileIdentity(enc)
		if err != nil {
			t.Errorf("identity %s: %v", c.hex, err)
			continue
		}
		if fmt.Sprintf("%+v", *back) != fmt.Sprintf("%+v", c.id) {
			t.Errorf("identity %s parses to %+v, want %+v", c.hex, *back, c.id)
		}
	}
	// S-NSSAI 9.11.2.8
	sd := [3]byte{1, 2, 3}
	m := uint8(9)
	for _, c := range []struct {
		s   refnas.SNSSAI
		hex string
	}{{refnas.SNSSAI{SST: 1}, "01"}, {refnas.SNSSAI{SST: 1, SD: &sd}, "01010203"}, {refnas.SNSSAI{SST: 2, MappedSST: &m}, "0209"},
		{refnas.SNSSAI{SST: 2, SD: &sd, MappedSST: &m}, "0201020309"}, {refnas.SNSSAI{SST: 2, SD: &sd, MappedSST: &m, MappedSD: &sd}, "0201020309010203"}} {
		enc, err := c.s.Encode()
		if err != nil || !bytes.Equal(enc, unhex(c.hex)) {
			t.Errorf("S-NSSAI %s: %x %v", c.hex, enc, err)
		}
		back, err := refnas.ParseSNSSAI(enc)
		if err != nil || back.SST != c.s.SST || (back.SD == nil) != (c.s.SD == nil) || (back.MappedSST == nil) != (c.s.MappedSST == nil) {
			t.Errorf("S-NSSAI %s parses to %+v %v", c.hex, back, err)
		}
	}
	if _, err := refnas.ParseSNSSAI(unhex("010203")); err == nil {
		t.Errorf("S-NSSAI of 3 octets accepted")
	}
	// DNN: TS 23.003 9.1 labels
	for _, c := range []struct{ s, hex string }{{"internet", "08696E7465726E6574"}, {"ims.mnc001", "03696D73066D6E63303031"}, {"a", "0161"}} {
		enc, err := refnas.EncodeDNN(c.s)
		if err != nil || !bytes.Equal(enc, unhex(c.hex)) {
			t.Errorf("DNN %q: %x %v", c.s, enc, err)
		}
		if s, err := refnas.ParseDNN(unhex(c.hex)); err != nil || s != c.s {
			t.Errorf("DNN %s: %q %v", c.hex, s, err)
		}
	}
	if _, err := refnas.ParseDNN([]byte("internet")); err == nil {
		t.Errorf("DNN without label length octet accepted")
	}
	// UE security capability 9.11.3.54
	c, err := refnas.ParseUESecurityCapability(unhex("8020"))
	if err != nil || c.EA5G != refnas.AlgBit(0) || c.IA5G != refnas.AlgBit(2) || c.EEA != nil {
		t.Errorf("UE security capability 8020: %+v %v", c, err)
	}
	c, _ = refnas.ParseUESecurityCapability(unhex("F0F0F0F0"))
	if c == nil || *c.EEA != 0xF0 || *c.EIA != 0xF0 || !bytes.Equal(c.Encode(), unhex("F0F0F0F0")) {
		t.Errorf("UE security capability F0F0F0F0: %+v", c)
	}
	// PDU address 9.11.4.10
	a, err := refnas.ParsePDUAddress(unhex("010A3C0001"))
	if err != nil || a.Type != 1 || a.IPv4 != [4]byte{10, 60, 0, 1} {
		t.Errorf("PDU address: %+v %v", a, err)
	}
	a, err = refnas.ParsePDUAddress(unhex("03 0102030405060708 C0A80001"))
	if err != nil || a.Type != 3 || a.IPv4 != [4]byte{192, 168, 0, 1} || a.IID != [8]byte{1, 2, 3, 4, 5, 6, 7, 8} {
		t.Errorf("PDU address v4v6: %+v %v", a, err)
	}
	if e, _ := a.Encode(); !bytes.Equal(e, unhex("030102030405060708C0A80001")) {
		t.Errorf("PDU address v4v6 encode %x", e)
	}
	if _, err := refnas.ParsePDUAddress(unhex("010A3C00")); err == nil {
		t.Errorf("short PDU address accepted")
	}
	// Session-AMBR 9.11.4.14: unit 6 = 1 Mbit/s
	s, err := refnas.ParseSessionAMBR(unhex("060064060032"))
	if err != nil || s.DL != 100 || s.UL != 50 || !bytes.Equal(s.Encode(), unhex("060064060032")) {
		t.Errorf("session-AMBR %+v %v", s, err)
	}
	// units: 1,4,16,64,256 kbit/s; 1,4,16,64,256 Mbit/s; ... (decimal prefixes)
	for _, c := range []struct {
		unit uint8
		val  uint16
		kbps uint64
	}{{1, 1, 1}, {2, 3, 12}, {5, 2, 512}, {6, 100, 100000}, {7, 1, 4000}, {11, 5, 5000000}, {16, 1, 1000000000}} {
		if k, ok := refnas.AMBRKbps(c.unit, c.val); !ok || k != c.kbps {
			t.Errorf("AMBR unit %d x%d = %d kbit/s, want %d", c.unit, c.val, k, c.kbps)
		}
	}
	if _, ok := refnas.AMBRKbps(0, 1); ok {
		t.Errorf("AMBR unit 0 accepted")
	}
	// half-octet fields
	if tsc, ksi := refnas.KSI(0xF); !tsc || ksi != 7 {
		t.Errorf("ngKSI")
	}
	if f, ty := refnas.RegistrationType(0x9); !f || ty != 1 {
		t.Errorf("registration type")
	}
	if so, rr, at := refnas.DeregistrationType(0x9); !so || rr || at != 1 {
		t.Errorf("de-registration type")
	}
}

type encoder interface{ Encode() ([]byte, error) }

// TestSelfNASMessages: the hand-written codecs on the hand-derived byte strings, and their
// agreement with the generic table (two independent typings of the same clauses).
func TestSelfNASMessages(t *testing.T) {
	rr, err := refnas.ParseRegistrationRequest(unhex(katRegReq))
	if err != nil || rr.RegType != 1 || !rr.FOR || rr.KSI != 7 || rr.TSC || !bytes.Equal(rr.UESecCap, unhex("8020")) || rr.Cap5GMM != nil {
		t.Fatalf("registration request: %+v %v", rr, err)
	}
	id, err := refnas.ParseMobileIdentity(rr.Identity)
	if err != nil || id.Type != refnas.IDSUCI || id.MCC != "001" || id.MNC != "01" || id.MSIN != "0000000001" || id.RoutingIndicator != "0" {
		t.Fatalf("registration request identity: %+v %v", id, err)
	}
	if e, err := rr.Encode(); err != nil || !bytes.Equal(e, unhex(katRegReq)) {
		t.Errorf("registration request re-encode %x %v", e, err)
	}
	ar, err := refnas.ParseAuthenticationRequest(unhex(katAuthReq))
	if err != nil || ar.KSI != 1 || ar.TSC || !bytes.Equal(ar.ABBA, []byte{0, 0}) || ar.RAND[15] != 0x0F || ar.AUTN[0] != 0xF0 || ar.EAP != nil {
		t.Fatalf("authentication request: %+v %v", ar, err)
	}
	if e, err := ar.Encode(); err != nil || !bytes.Equal(e, unhex(katAuthReq)) {
		t.Errorf("authentication request re-encode %x %v", e, err)
	}
	sc, err := refnas.ParseSecurityModeCommand(unhex(katSMC))
	if err != nil || sc.Ciphering != 0 || sc.Integrit != 2 || sc.KSI != 0 || !bytes.Equal(sc.ReplayedUESecCap, unhex("8020")) ||
		!bytes.Equal(sc.IMEISVRequest, []byte{1}) || !bytes.Equal(sc.Additional5GSecInfo, []byte{2}) {
		t.Fatalf("security mode command: %+v %v", sc, err)
	}
	if e, err := sc.Encode(); err != nil || !bytes.Equal(e, unhex(katSMC)) {
		t.Errorf("security mode command re-encode %x %v", e, err)
	}
	ea, err := refnas.ParsePDUSessionEstablishmentAccept(unhex(katEstAcc))
	if err != nil || ea.PSI != 10 || ea.PTI != 1 || ea.PDUType != 1 || ea.SSCMode != 1 || len(ea.QoSRules) != 9 ||
		!bytes.Equal(ea.AMBR, unhex("060064060064")) || !bytes.Equal(ea.PDUAddress, unhex("010A3C0001")) || ea.Cause != nil {
		t.Fatalf("establishment accept: %+v %v", ea, err)
	}
	if dnn, err := refnas.ParseDNN(ea.DNN); err != nil || dnn != "internet" {
		t.Errorf("establishment accept DNN %q %v", dnn, err)
	}
	if e, err := ea.Encode(); err != nil || !bytes.Equal(e, unhex(katEstAcc)) {
		t.Errorf("establishment accept re-encode %x %v", e, err)
	}
	// a service request by hand: ngKSI 1 in bits 4..1, service type "data" (0001) in bits 8..5
	sr, err := refnas.ParseServiceRequest(unhex("7E004C 11 0007 F4FE0000000001 4002 0004"))
	if err != nil || sr.ServiceType != 1 || sr.KSI != 1 || sr.TSC || !bytes.Equal(sr.UplinkDataStatus, []byte{0, 4}) {
		t.Fatalf("service request: %+v %v", sr, err)
	}
	// a de-registration request: ngKSI 4 | switch off 1, re-reg 0, 3GPP access 01 -> 0x49
	dr, err := refnas.ParseDeregistrationRequest(unhex("7E0045 49 000D 0100F110F0FF00000000000010"))
	if err != nil || dr.KSI != 4 || !dr.SwitchOff || dr.ReRegister || dr.AccessType != 1 {
		t.Fatalf("de-registration request: %+v %v", dr, err)
	}
	if e, _ := dr.Encode(); !bytes.Equal(e, unhex("7E004549000D0100F110F0FF00000000000010")) {
		t.Errorf("de-registration request re-encode %x", e)
	}
	// DL NAS TRANSPORT around the accept
	dl := &refnas.DLNASTransport{PayloadType: 1, Payload: unhex(katEstAcc), PSI: []byte{10}}
	e, err := dl.Encode()
	if err != nil || !bytes.HasPrefix(e, unhex("7E0068 01 0043 2E0A01C2")) || !bytes.HasSuffix(e, unhex("120A")) {
		t.Fatalf("DL NAS transport: %x %v", e, err)
	}
	if back, err := refnas.ParseDLNASTransport(e); err != nil || !bytes.Equal(back.Payload, unhex(katEstAcc)) || back.PSI[0] != 10 {
		t.Errorf("DL NAS transport parse: %+v %v", back, err)
	}

	// every hand-written message must agree with the generic table on every byte string the
	// table can produce for it: encode by table (all optional IEs present, minimum lengths),
	// parse by hand, re-encode by hand.
	type hw struct {
		name  string
		parse func([]byte) (encoder, error)
	}
	list := []hw{
		{"RegistrationRequest", func(b []byte) (encoder, error) { return refnas.ParseRegistrationRequest(b) }},
		{"AuthenticationResponse", func(b []byte) (encoder, error) { return refnas.ParseAuthenticationResponse(b) }},
		{"SecurityModeComplete", func(b []byte) (encoder, error) { return refnas.ParseSecurityModeComplete(b) }},
		{"RegistrationComplete", func(b []byte) (encoder, error) { return refnas.ParseRegistrationComplete(b) }},
		{"ULNASTransport", func(b []byte) (encoder, error) { return refnas.ParseULNASTransport(b) }},
		{"PDUSessionEstablishmentRequest", func(b []byte) (encoder, error) {
			return refnas.ParsePDUSessionEstablishmentRequest(b)
		}},
		{"PDUSessionReleaseRequest", func(b []byte) (encoder, error) { return refnas.ParsePDUSessionRelease(b, false) }},
		{"PDUSessionReleaseComplete", func(b []byte) (encoder, error) { return refnas.ParsePDUSessionRelease(b, true) }},
		{"ServiceRequest", func(b []byte) (encoder, error) { return refnas.ParseServiceRequest(b) }},
		{"DeregistrationRequestUEOriginatingDeregistration", func(b []byte) (encoder, error) {
			return refnas.ParseDeregistrationRequest(b)
		}},
		{"AuthenticationRequest", func(b []byte) (encoder, error) { return refnas.ParseAuthenticationRequest(b) }},
		{"SecurityModeCommand", func(b []byte) (encoder, error) { return refnas.ParseSecurityModeCommand(b) }},
		{"RegistrationAccept", func(b []byte) (encoder, error) { return refnas.ParseRegistrationAccept(b) }},
		{"ConfigurationUpdateCommand", func(b []byte) (encoder, error) {
			return refnas.ParseConfigurationUpdateCommand(b)
		}},
		{"DLNASTransport", func(b []byte) (encoder, error) { return refnas.ParseDLNASTransport(b) }},
		{"PDUSessionEstablishmentAccept", func(b []byte) (encoder, error) {
			return refnas.ParsePDUSessionEstablishmentAccept(b)
		}},
		{"PDUSessionReleaseCommand", func(b []byte) (encoder, error) { return refnas.ParsePDUSessionReleaseCommand(b) }},
		{"ServiceAccept", func(b []byte) (encoder, error) { return refnas.ParseServiceAccept(b) }},
	}
	for _, h := range list {
		d := refnas.ByName(h.name)
		if d == nil {
			t.Fatalf("no table for %s", h.name)
		}
		v := refnas.NewValue(d)
		for i := range d.Mand {
			if d.Mand[i].Fixed < 0 {
				for k := range v.Mand[i] {
					v.Mand[i][k] = byte(0x03 + 7*i + k)
				}
				if d.Mand[i].Fmt == refnas.HalfV && d.Mand[i].Hi == "Spare half octet" {
					v.Mand[i][0] &= 0x0F
				}
			}
		}
		v.Mand[1][0] &= 0x0F
		for i := range d.Opts {
			o := &d.Opts[i]
			mn, _ := o.ValueLen()
			val := make([]byte, mn)
			for k := range val {
				val[k] = byte(0x40 + i + k)
			}
			if o.Fmt == refnas.TV1 {
				val[0] = byte(i) & 0xF
			}
			v.Opts = append(v.Opts, refnas.IE{IEI: o.IEI, Val: val})
		}
		ref, err := v.Encode()
		if err != nil {
			t.Fatalf("%s: %v", h.name, err)
		}
		m, err := h.parse(ref)
		if err != nil {
			t.Errorf("%s: hand-written parser refuses the table encoding: %v", h.name, err)
			continue
		}
		back, err := m.Encode()
		if err != nil || !bytes.Equal(back, ref) {
			t.Errorf("%s: hand-written encoder %x (%v) differs from table encoding %x", h.name, back, err, ref)
		}
	}
	if err := refnas.ParseDeregistrationAccept(refnas.EncodeDeregistrationAccept()); err != nil {
		t.Errorf("de-registration accept: %v", err)
	}
}
