package pc

// Binding between the refnas tables (the specification) and the library's Go types (the code
// under test). Everything the harness knows about the library's structs is found here by
// reflection: the shape of every IE type (Iei / Len / Octet | Buffer), its real capacity, and
// the field of nas.GmmMessage / nas.GsmMessage that carries a message.

import (
	"bytes"
	"encoding/hex"
	"encoding/json"
	"fmt"
	"reflect"
	"strings"
	"sync"

	"free5gclib/nas"

	"verifh/ev"
	"verifh/refnas"
)

// hexBytes is a []byte that travels as a hex string in replay files.
type hexBytes []byte

func (h hexBytes) MarshalJSON() ([]byte, error) { return json.Marshal(hex.EncodeToString(h)) }
func (h *hexBytes) UnmarshalJSON(b []byte) error {
	var s string
	if err := json.Unmarshal(b, &s); err != nil {
		return err
	}
	x, err := hex.DecodeString(s)
	*h = x
	return err
}

// shape of one IE type of nasType.
type shape struct {
	hasIei  bool
	lenBits int // 0: no Len field
	octet   int // 0: none, 1: uint8, 2: array, 3: empty struct (no payload field at all)
	arrLen  int
	hasBuf  bool
}

func shapeOf(t reflect.Type) (shape, error) {
	var s shape
	if t.Kind() != reflect.Struct {
		return s, fmt.Errorf("%v is not a struct", t)
	}
	if t.NumField() == 0 {
		s.octet = 3
		return s, nil
	}
	for i := 0; i < t.NumField(); i++ {
		f := t.Field(i)
		switch f.Name {
		case "Iei":
			s.hasIei = true
		case "Len":
			switch f.Type.Kind() {
			case reflect.Uint8:
				s.lenBits = 8
			case reflect.Uint16:
				s.lenBits = 16
			default:
				return s, fmt.Errorf("%v.Len has kind %v", t, f.Type.Kind())
			}
		case "Octet":
			switch f.Type.Kind() {
			case reflect.Uint8:
				s.octet = 1
			case reflect.Array:
				s.octet, s.arrLen = 2, f.Type.Len()
			default:
				return s, fmt.Errorf("%v.Octet has kind %v", t, f.Type.Kind())
			}
		case "Buffer":
			s.hasBuf = true
		default:
			return s, fmt.Errorf("%v has an unexpected field %s", t, f.Name)
		}
	}
	return s, nil
}

// capacity is the largest value part (in octets) the Go type can hold and put on the wire.
func (s shape) capacity() int {
	switch {
	case s.hasBuf:
		if s.lenBits == 8 {
			return 255
		}
		return 65535
	case s.octet == 2:
		return s.arrLen
	case s.octet == 1:
		return 1
	}
	return 0
}

type binding struct {
	def     *refnas.MsgDef
	gsm     bool
	typ     reflect.Type // nasMessage.<Name>
	holder  int          // index of *nasMessage.<Name> in nas.GmmMessage / nas.GsmMessage
	mandIdx []int        // Go field index per mandatory element
	mandSh  []shape
	optIdx  []int
	optSh   []shape
	effIEI  []uint8  // IEI used when talking to the library (resolved for unadjudicated elements)
	issues  []string // structural disagreements between table and Go type
}

var (
	bindOnce sync.Once
	bindings []*binding
	bindByNm map[string]*binding
)

func allBindings() []*binding {
	bindOnce.Do(func() {
		bindByNm = map[string]*binding{}
		for _, d := range refnas.Messages {
			b := bind(d)
			bindings = append(bindings, b)
			bindByNm[d.Name] = b
		}
	})
	return bindings
}

func bindingOf(name string) *binding {
	allBindings()
	return bindByNm[name]
}

func bind(d *refnas.MsgDef) *binding {
	b := &binding{def: d, gsm: d.EPD == refnas.EPD5GSM, holder: -1}
	var ht reflect.Type
	if b.gsm {
		ht = reflect.TypeOf(nas.GsmMessage{})
	} else {
		ht = reflect.TypeOf(nas.GmmMessage{})
	}
	for i := 0; i < ht.NumField(); i++ {
		f := ht.Field(i)
		if f.Type.Kind() == reflect.Ptr && f.Type.Elem().Name() == d.Name {
			b.holder, b.typ = i, f.Type.Elem()
		}
	}
	if b.typ == nil {
		b.issues = append(b.issues, "no field *nasMessage."+d.Name+" in the library's message holder")
		return b
	}
	claimed := map[int]bool{}
	for i := range d.Mand {
		m := &d.Mand[i]
		f, ok := b.typ.FieldByName(m.Go)
		if !ok || len(f.Index) != 1 {
			b.issues = append(b.issues, fmt.Sprintf("mandatory element %q: Go field %s missing", m.Name, m.Go))
			b.mandIdx = append(b.mandIdx, -1)
			b.mandSh = append(b.mandSh, shape{})
			continue
		}
		if f.Type.Kind() == reflect.Ptr {
			b.issues = append(b.issues, fmt.Sprintf("mandatory element %q: Go field %s is a pointer (optional)", m.Name, m.Go))
			b.mandIdx = append(b.mandIdx, -1)
			b.mandSh = append(b.mandSh, shape{})
			continue
		}
		sh, err := shapeOf(f.Type)
		if err != nil {
			b.issues = append(b.issues, err.Error())
		}
		claimed[f.Index[0]] = true
		b.mandIdx = append(b.mandIdx, f.Index[0])
		b.mandSh = append(b.mandSh, sh)
	}
	for i := range d.Opts {
		o := &d.Opts[i]
		f, ok := b.typ.FieldByName(o.Go)
		if !ok || len(f.Index) != 1 || f.Type.Kind() != reflect.Ptr {
			b.issues = append(b.issues, fmt.Sprintf("optional IE %q: Go field *%s missing", o.Name, o.Go))
			b.optIdx = append(b.optIdx, -1)
			b.optSh = append(b.optSh, shape{})
			b.effIEI = append(b.effIEI, o.IEI)
			continue
		}
		sh, err := shapeOf(f.Type.Elem())
		if err != nil {
			b.issues = append(b.issues, err.Error())
		}
		claimed[f.Index[0]] = true
		b.optIdx = append(b.optIdx, f.Index[0])
		b.optSh = append(b.optSh, sh)
		b.effIEI = append(b.effIEI, o.IEI)
	}
	for i := 0; i < b.typ.NumField(); i++ {
		if !claimed[i] {
			b.issues = append(b.issues, fmt.Sprintf("Go field %s is not in Table %s.1.1", b.typ.Field(i).Name, d.Clause))
		}
	}
	// order of the Go fields = order of the table (mandatory part: required; optional: noted)
	last := -1
	for _, ix := range b.mandIdx {
		if ix >= 0 && ix < last {
			b.issues = append(b.issues, "mandatory Go fields are not in table order")
		}
		if ix >= 0 {
			last = ix
		}
	}
	// resolve the IEI the library uses for unadjudicated elements (never for anything else)
	if len(b.issues) == 0 {
		for i := range d.Opts {
			o := &d.Opts[i]
			if o.Unadjudicated == "" {
				continue
			}
			for _, cand := range []uint8{o.IEI, o.AltIEI} {
				if b.libraryAccepts(i, cand) {
					b.effIEI[i] = cand
					break
				}
			}
		}
	}
	return b
}

// libraryAccepts: does the library's decoder recognise optional IE i under this IEI?
func (b *binding) libraryAccepts(i int, iei uint8) (ok bool) {
	defer func() {
		if recover() != nil {
			ok = false
		}
	}()
	o := &b.def.Opts[i]
	v := refnas.NewValue(b.def)
	mn, _ := o.ValueLen()
	v.Opts = []refnas.IE{{IEI: iei, Val: make([]byte, mn)}}
	enc, err := v.Encode()
	if err != nil {
		return false
	}
	m, err := b.decode(enc)
	if err != nil {
		return false
	}
	return !b.inner(m).Elem().Field(b.optIdx[i]).IsNil()
}

// valueRange is the range of value lengths that is legal by the table AND fits the Go type.
func (b *binding) optRange(i int) (lo, hi int) {
	lo, hi = b.def.Opts[i].ValueLen()
	if c := b.optSh[i].capacity(); hi > c {
		hi = c
	}
	return
}
func (b *binding) mandRange(i int) (lo, hi int) {
	lo, hi = b.def.Mand[i].ValueLen()
	if b.def.Mand[i].Fmt == refnas.VRest {
		return 0, 0 // the Go type has no field for the enveloped message, see fragment assumptions
	}
	if c := b.mandSh[i].capacity(); hi > c {
		hi = c
	}
	return
}

// fill stores a wire-level value part into one IE struct the way a user of the library does.
func fill(dst reflect.Value, sh shape, f refnas.Format, iei uint8, val []byte) error {
	if sh.hasIei && iei != 0 && f != refnas.TV1 {
		dst.FieldByName("Iei").SetUint(uint64(iei))
	}
	if sh.lenBits != 0 {
		dst.FieldByName("Len").SetUint(uint64(len(val)))
	}
	switch {
	case sh.hasBuf:
		dst.FieldByName("Buffer").SetBytes(append([]byte{}, val...))
	case sh.octet == 1:
		if len(val) != 1 {
			return fmt.Errorf("%v holds exactly one octet, value has %d", dst.Type(), len(val))
		}
		x := val[0]
		if f == refnas.TV1 {
			x = iei<<4 | val[0]&0xF
		}
		dst.FieldByName("Octet").SetUint(uint64(x))
	case sh.octet == 2:
		if len(val) > sh.arrLen {
			return fmt.Errorf("%v holds %d octets, value has %d", dst.Type(), sh.arrLen, len(val))
		}
		o := dst.FieldByName("Octet")
		for i, x := range val {
			o.Index(i).SetUint(uint64(x))
		}
	case sh.octet == 3:
		if len(val) != 0 {
			return fmt.Errorf("%v has no field that could hold %d octets", dst.Type(), len(val))
		}
	}
	return nil
}

// build constructs the library message for a wire-level value.
func (b *binding) build(v *refnas.Value) (*nas.Message, error) {
	p := reflect.New(b.typ)
	s := p.Elem()
	for i := range b.def.Mand {
		if err := fill(s.Field(b.mandIdx[i]), b.mandSh[i], b.def.Mand[i].Fmt, 0, v.Mand[i]); err != nil {
			return nil, fmt.Errorf("%s/%s: %v", b.def.Name, b.def.Mand[i].Name, err)
		}
	}
	for _, ie := range v.Opts {
		k := -1
		for i := range b.def.Opts {
			if b.def.Opts[i].IEI == ie.IEI {
				k = i
			}
		}
		if k < 0 {
			return nil, fmt.Errorf("%s: IE %#x not in table", b.def.Name, ie.IEI)
		}
		f := s.Field(b.optIdx[k])
		if !f.IsNil() {
			return nil, fmt.Errorf("%s: IE %#x twice", b.def.Name, ie.IEI)
		}
		x := reflect.New(f.Type().Elem())
		if err := fill(x.Elem(), b.optSh[k], b.def.Opts[k].Fmt, b.effIEI[k], ie.Val); err != nil {
			return nil, fmt.Errorf("%s/%s: %v", b.def.Name, b.def.Opts[k].Name, err)
		}
		f.Set(x)
	}
	return b.wrap(p, v), nil
}

// wrap puts a message struct into a nas.Message with the header octets a decoder would leave.
func (b *binding) wrap(p reflect.Value, v *refnas.Value) *nas.Message {
	m := nas.NewMessage()
	hdr, _ := v.EncodeMand()
	if b.gsm {
		m.GsmMessage = nas.NewGsmMessage()
		copy(m.GsmMessage.GsmHeader.Octet[:], hdr)
		reflect.ValueOf(m.GsmMessage).Elem().Field(b.holder).Set(p)
	} else {
		m.GmmMessage = nas.NewGmmMessage()
		copy(m.GmmMessage.GmmHeader.Octet[:], hdr)
		reflect.ValueOf(m.GmmMessage).Elem().Field(b.holder).Set(p)
	}
	return m
}

// inner returns the *nasMessage.<Name> of a message (a reflect pointer value, maybe nil).
func (b *binding) inner(m *nas.Message) reflect.Value {
	if b.gsm {
		if m.GsmMessage == nil {
			return reflect.Zero(reflect.PtrTo(b.typ))
		}
		return reflect.ValueOf(m.GsmMessage).Elem().Field(b.holder)
	}
	if m.GmmMessage == nil {
		return reflect.Zero(reflect.PtrTo(b.typ))
	}
	return reflect.ValueOf(m.GmmMessage).Elem().Field(b.holder)
}

// dispatchable: can the message travel through PlainNasEncode / PlainNasDecode at all?
func (b *binding) dispatchable() bool { return b.def.HasMT }

// encode / decode go through the public entry points; the security envelope, which has no
// message type, is reached through its own Encode/Decode methods.
func (b *binding) encodeRaw(m *nas.Message) ([]byte, error) {
	if b.dispatchable() {
		return m.PlainNasEncode()
	}
	in := b.inner(m)
	buf := new(bytes.Buffer)
	in.MethodByName("Encode" + b.def.Name).Call([]reflect.Value{reflect.ValueOf(buf)})
	return buf.Bytes(), nil
}

func (b *binding) decodeRaw(enc []byte) (*nas.Message, error) {
	cp := append([]byte{}, enc...)
	if b.dispatchable() {
		m := nas.NewMessage()
		err := m.PlainNasDecode(&cp)
		return m, err
	}
	m := nas.NewMessage()
	m.GmmMessage = nas.NewGmmMessage()
	copy(m.GmmMessage.GmmHeader.Octet[:], cp)
	p := reflect.New(b.typ)
	p.MethodByName("Decode" + b.def.Name).Call([]reflect.Value{reflect.ValueOf(&cp)})
	reflect.ValueOf(m.GmmMessage).Elem().Field(b.holder).Set(p)
	return m, nil
}

// encode / decode: a panic inside the library becomes an error naming the panic site, so that
// the oracles can still attribute the failure to its root cause.
func (b *binding) encode(m *nas.Message) (out []byte, err error) {
	e, site := ev.Guard(func() error {
		var e error
		out, e = b.encodeRaw(m)
		return e
	})
	if site != "" {
		return nil, fmt.Errorf("panic in %s: %v", site, e)
	}
	return out, e
}

func (b *binding) decode(enc []byte) (m *nas.Message, err error) {
	e, site := ev.Guard(func() error {
		var e error
		m, e = b.decodeRaw(enc)
		return e
	})
	if site != "" {
		return nil, fmt.Errorf("panic in %s: %v", site, e)
	}
	return m, e
}

// onlyHolder checks that exactly the holder of this message is set after a decode.
func (b *binding) onlyHolder(m *nas.Message) error {
	if b.gsm != (m.GsmMessage != nil) || b.gsm == (m.GmmMessage != nil) {
		return fmt.Errorf("decoded into the wrong protocol (Gmm set: %v, Gsm set: %v)", m.GmmMessage != nil, m.GsmMessage != nil)
	}
	var h reflect.Value
	if b.gsm {
		h = reflect.ValueOf(m.GsmMessage).Elem()
	} else {
		h = reflect.ValueOf(m.GmmMessage).Elem()
	}
	for i := 0; i < h.NumField(); i++ {
		f := h.Field(i)
		if f.Kind() != reflect.Ptr {
			continue
		}
		if (i == b.holder) == f.IsNil() {
			if i == b.holder {
				return fmt.Errorf("holder %s is nil after decoding", b.def.Name)
			}
			return fmt.Errorf("holder %s is set after decoding a %s", h.Type().Field(i).Name, b.def.Name)
		}
	}
	return nil
}

// diff compares two values structurally, identifying nil and empty slices; it returns the
// path of the first difference ("" = equal).
func diff(a, b reflect.Value, path string) string {
	if a.Kind() != b.Kind() {
		return path + " (kind)"
	}
	switch a.Kind() {
	case reflect.Ptr:
		if a.IsNil() || b.IsNil() {
			if a.IsNil() != b.IsNil() {
				return fmt.Sprintf("%s (present: %v vs %v)", path, !a.IsNil(), !b.IsNil())
			}
			return ""
		}
		return diff(a.Elem(), b.Elem(), path)
	case reflect.Struct:
		for i := 0; i < a.NumField(); i++ {
			p := a.Type().Field(i).Name
			if path != "" {
				p = path + "." + p
			}
			if d := diff(a.Field(i), b.Field(i), p); d != "" {
				return d
			}
		}
		return ""
	case reflect.Slice:
		if a.Len() != b.Len() {
			return fmt.Sprintf("%s (len %d vs %d)", path, a.Len(), b.Len())
		}
		if a.Type().Elem().Kind() == reflect.Uint8 {
			if !bytes.Equal(a.Bytes(), b.Bytes()) {
				return fmt.Sprintf("%s (%s vs %s)", path, short(a.Bytes()), short(b.Bytes()))
			}
			return ""
		}
		for i := 0; i < a.Len(); i++ {
			if d := diff(a.Index(i), b.Index(i), fmt.Sprintf("%s[%d]", path, i)); d != "" {
				return d
			}
		}
		return ""
	case reflect.Array:
		for i := 0; i < a.Len(); i++ {
			if d := diff(a.Index(i), b.Index(i), fmt.Sprintf("%s[%d]", path, i)); d != "" {
				return d
			}
		}
		return ""
	default:
		if !reflect.DeepEqual(a.Interface(), b.Interface()) {
			return fmt.Sprintf("%s (%v vs %v)", path, a.Interface(), b.Interface())
		}
		return ""
	}
}

func diffMsg(a, b *nas.Message) string {
	return diff(reflect.ValueOf(a), reflect.ValueOf(b), "")
}

func short(b []byte) string {
	if len(b) > 12 {
		return fmt.Sprintf("%x…(%d)", b[:12], len(b))
	}
	return fmt.Sprintf("%x", b)
}

// fieldOfPath extracts the IE (Go field) name from a diff path such as
// "GmmMessage.RegistrationRequest.UESecurityCapability.Len (…)": the component after the
// message name.
func fieldOfPath(path, msg string) string {
	parts := strings.Split(strings.SplitN(path, " ", 2)[0], ".")
	for i, p := range parts {
		if p == msg && i+1 < len(parts) {
			return parts[i+1]
		}
	}
	if len(parts) > 0 {
		return parts[len(parts)-1]
	}
	return path
}

// layoutOf records where each element of a table-encoded message lies, so that a byte
// difference can be attributed to an element.
type span struct {
	from, to int
	goField  string
}

func (b *binding) spans(v *refnas.Value) ([]span, []byte, error) {
	var sp []span
	var out []byte
	for i := range b.def.Mand {
		one := &refnas.Value{Def: &refnas.MsgDef{Name: b.def.Name, Mand: b.def.Mand[i : i+1]}, Mand: v.Mand[i : i+1]}
		e, err := one.EncodeMand()
		if err != nil {
			return nil, nil, err
		}
		sp = append(sp, span{len(out), len(out) + len(e), b.def.Mand[i].Go})
		out = append(out, e...)
	}
	for _, ie := range v.Opts {
		k := b.optIndexByIEI(ie.IEI)
		if k < 0 {
			return nil, nil, fmt.Errorf("%s: IE %#x not in table", b.def.Name, ie.IEI)
		}
		e, err := refnas.EncodeIE(&b.def.Opts[k], ie.Val, b.effIEI[k])
		if err != nil {
			return nil, nil, err
		}
		sp = append(sp, span{len(out), len(out) + len(e), b.def.Opts[k].Go})
		out = append(out, e...)
	}
	return sp, out, nil
}

func (b *binding) optIndexByIEI(iei uint8) int {
	for i := range b.def.Opts {
		if b.def.Opts[i].IEI == iei {
			return i
		}
	}
	return -1
}

// culprit names the element of the table encoding that covers the first octet where got
// differs from want.
func culprit(sp []span, want, got []byte) (string, int) {
	n := len(want)
	if len(got) < n {
		n = len(got)
	}
	at := n
	for i := 0; i < n; i++ {
		if want[i] != got[i] {
			at = i
			break
		}
	}
	for _, s := range sp {
		if at >= s.from && at < s.to {
			return s.goField, at
		}
	}
	if len(sp) > 0 {
		return sp[len(sp)-1].goField, at
	}
	return "?", at
}
