package pc

// C09 part (ii), downlink: messages the AMF/SMF side sends to the emulator, built by the
// hand-written refnas encoder, decoded by PlainNasDecode and read through the library's
// accessors. The case *is* the refnas message struct (so a replay file shows every field).

import (
	"bytes"
	"fmt"
	"reflect"

	"free5gclib/nas"
	"free5gclib/nas/nasType"
	"pgregory.net/rapid"

	"verifh/ev"
	"verifh/refnas"
)

type dlMsg struct {
	AuthReq *refnas.AuthenticationRequest         `json:"auth_req,omitempty"`
	SMC     *refnas.SecurityModeCommand           `json:"smc,omitempty"`
	RegAcc  *refnas.RegistrationAccept            `json:"reg_acc,omitempty"`
	CUC     *refnas.ConfigurationUpdateCommand    `json:"cuc,omitempty"`
	DLNAS   *refnas.DLNASTransport                `json:"dl_nas,omitempty"`
	EstAcc  *refnas.PDUSessionEstablishmentAccept `json:"est_acc,omitempty"`
	RelCmd  *refnas.PDUSessionReleaseCommand      `json:"rel_cmd,omitempty"`
	SvcAcc  *refnas.ServiceAccept                 `json:"svc_acc,omitempty"`
	Dereg   bool                                  `json:"dereg_accept,omitempty"`
}

var dlKinds = []string{"dl:AuthenticationRequest", "dl:SecurityModeCommand", "dl:RegistrationAccept", "dl:ConfigurationUpdateCommand",
	"dl:DLNASTransport", "dl:PDUSessionEstablishmentAccept", "dl:PDUSessionReleaseCommand", "dl:ServiceAccept", "dl:DeregistrationAccept"}

type dlDraw struct{ t *rapid.T }

func (d dlDraw) bytes(label string, lo, hi int) []byte {
	return drawBytes(d.t, drawLen(d.t, lo, hi, label+"_len"), label)
}
func (d dlDraw) opt(label string, lo, hi int) []byte {
	if !rapid.Bool().Draw(d.t, label+"_present") {
		return nil
	}
	b := d.bytes(label, lo, hi)
	if b == nil {
		b = []byte{}
	}
	return b
}
func (d dlDraw) nib(label string) []byte {
	if !rapid.Bool().Draw(d.t, label+"_present") {
		return nil
	}
	return []byte{byte(rapid.IntRange(0, 15).Draw(d.t, label))}
}
func (d dlDraw) u8(label string, hi int) uint8 { return uint8(rapid.IntRange(0, hi).Draw(d.t, label)) }

func drawSNSSAI(t *rapid.T, label string) []byte {
	return drawBytes(t, rapid.SampledFrom([]int{1, 4, 2, 5, 8}).Draw(t, label+"_len"), label)
}

func drawGUTI(t *rapid.T) []byte {
	id := refnas.MobileIdentity{Type: refnas.IDGUTI, MCC: digits(t, 3, "g_mcc"), MNC: digits(t, rapid.IntRange(2, 3).Draw(t, "g_mnc_len"), "g_mnc"),
		AMFRegionID: rapid.Uint8().Draw(t, "g_region"), AMFSetID: uint16(rapid.IntRange(0, 1023).Draw(t, "g_set")),
		AMFPointer: uint8(rapid.IntRange(0, 63).Draw(t, "g_ptr")), TMSI: rapid.Uint32().Draw(t, "g_tmsi")}
	b, _ := id.Encode()
	return b
}

func drawEstAcc(t *rapid.T) *refnas.PDUSessionEstablishmentAccept {
	d := dlDraw{t}
	m := &refnas.PDUSessionEstablishmentAccept{PSI: rapid.Uint8().Draw(t, "psi"), PTI: rapid.Uint8().Draw(t, "pti"),
		PDUType: uint8(rapid.IntRange(1, 5).Draw(t, "pdu_type")), SSCMode: uint8(rapid.IntRange(1, 3).Draw(t, "ssc")),
		QoSRules: d.bytes("qos_rules", 4, 4000)}
	ambr := refnas.SessionAMBR{DLUnit: uint8(rapid.IntRange(1, 25).Draw(t, "dl_unit")), DL: rapid.Uint16().Draw(t, "dl"),
		ULUnit: uint8(rapid.IntRange(1, 25).Draw(t, "ul_unit")), UL: rapid.Uint16().Draw(t, "ul")}
	m.AMBR = ambr.Encode()
	m.Cause = d.opt("cause", 1, 1)
	if rapid.IntRange(0, 3).Draw(t, "addr_present") != 0 {
		a := refnas.PDUAddress{Type: uint8(rapid.IntRange(1, 3).Draw(t, "addr_type"))}
		copy(a.IPv4[:], drawBytes(t, 4, "ipv4"))
		copy(a.IID[:], drawBytes(t, 8, "iid"))
		m.PDUAddress, _ = a.Encode()
	}
	m.RQTimer = d.opt("rq", 1, 1)
	if rapid.Bool().Draw(t, "snssai_present") {
		m.SNSSAI = drawSNSSAI(t, "snssai")
	}
	m.AlwaysOn = d.nib("always_on")
	m.MappedEPSBearers = d.opt("mapped", 4, 600)
	m.EAP = d.opt("eap", 4, 1500)
	m.QoSFlowDescriptions = d.opt("qfd", 3, 1000)
	m.EPCO = d.opt("epco", 1, 1000)
	if rapid.Bool().Draw(t, "dnn_present") {
		m.DNN, _ = refnas.EncodeDNN(rapid.StringMatching(`[a-z0-9-]{1,20}(\.[a-z0-9]{1,10}){0,3}`).Draw(t, "dnn"))
	}
	return m
}

func drawRelCmd(t *rapid.T) *refnas.PDUSessionReleaseCommand {
	d := dlDraw{t}
	return &refnas.PDUSessionReleaseCommand{PSI: rapid.Uint8().Draw(t, "psi"), PTI: rapid.Uint8().Draw(t, "pti"), Cause: rapid.Uint8().Draw(t, "cause"),
		Backoff: d.opt("backoff", 1, 1), EAP: d.opt("eap", 4, 1500), EPCO: d.opt("epco", 1, 1000)}
}

func drawDL(t *rapid.T, kind string) *dlMsg {
	d := dlDraw{t}
	sht := uint8(0)
	switch kind {
	case "dl:AuthenticationRequest":
		m := &refnas.AuthenticationRequest{SHT: sht, KSI: d.u8("ksi", 7), TSC: rapid.Bool().Draw(t, "tsc"), ABBA: d.bytes("abba", 2, 40)}
		if rapid.IntRange(0, 5).Draw(t, "eap_aka") == 0 {
			m.EAP = d.bytes("eap", 4, 1500)
			m.RAND = d.opt("rand", 16, 16)
		} else {
			m.RAND = drawBytes(t, 16, "rand")
			m.AUTN = drawBytes(t, 16, "autn")
		}
		return &dlMsg{AuthReq: m}
	case "dl:SecurityModeCommand":
		m := &refnas.SecurityModeCommand{SHT: sht, Ciphering: d.u8("ciph", 15), Integrit: d.u8("integ", 15), KSI: d.u8("ksi", 7), TSC: rapid.Bool().Draw(t, "tsc"),
			ReplayedUESecCap: d.bytes("replayed", 2, 8)}
		m.IMEISVRequest = d.nib("imeisv_req")
		m.EPSAlgorithms = d.opt("eps_algs", 1, 1)
		m.Additional5GSecInfo = d.opt("add5g", 1, 1)
		m.EAP = d.opt("eap", 4, 1500)
		m.ABBA = d.opt("abba", 2, 40)
		m.ReplayedS1UESecCap = d.opt("s1cap", 2, 5)
		return &dlMsg{SMC: m}
	case "dl:RegistrationAccept":
		m := &refnas.RegistrationAccept{SHT: sht, Result: []byte{d.u8("result", 15)}}
		if rapid.IntRange(0, 3).Draw(t, "guti_present") != 0 {
			m.GUTI = drawGUTI(t)
		}
		m.EquivalentPLMNs = d.opt("eplmn", 3, 45)
		m.TAIList = d.opt("tai", 7, 112)
		if rapid.Bool().Draw(t, "allowed_present") {
			m.AllowedNSSAI = []byte{}
			for i, n := 0, rapid.IntRange(1, 8).Draw(t, "allowed_n"); i < n; i++ {
				s := drawSNSSAI(t, fmt.Sprintf("allowed%d", i))
				m.AllowedNSSAI = append(append(m.AllowedNSSAI, byte(len(s))), s...)
			}
		}
		m.RejectedNSSAI = d.opt("rejected", 2, 40)
		m.ConfiguredNSSAI = d.opt("configured", 2, 144)
		m.NetworkFeatureSupport = d.opt("nwfeat", 1, 3)
		m.PDUSessionStatus = d.opt("pdustatus", 2, 32)
		m.ReactivationResult = d.opt("react", 2, 32)
		m.ReactivationErrorCause = d.opt("reacterr", 2, 512)
		m.LADNInformation = d.opt("ladn", 9, 1712)
		m.MICO = d.nib("mico")
		m.NetworkSlicingInd = d.nib("nsi")
		m.ServiceAreaList = d.opt("sal", 4, 112)
		m.T3512 = d.opt("t3512", 1, 1)
		m.Non3GPPDeregTimer = d.opt("n3dereg", 1, 1)
		m.T3502 = d.opt("t3502", 1, 1)
		m.EmergencyNumbers = d.opt("emerg", 3, 48)
		m.ExtEmergencyNumbers = d.opt("xemerg", 4, 600)
		m.SOR = d.opt("sor", 17, 300)
		m.EAP = d.opt("eap", 4, 1500)
		m.NSSAIInclusionMode = d.nib("nssai_mode")
		m.OperatorAccessCategories = d.opt("odac", 0, 300)
		m.NegotiatedDRX = d.opt("drx", 1, 1)
		return &dlMsg{RegAcc: m}
	case "dl:ConfigurationUpdateCommand":
		m := &refnas.ConfigurationUpdateCommand{SHT: sht}
		m.Indication = d.nib("ind")
		if rapid.Bool().Draw(t, "guti_present") {
			m.GUTI = drawGUTI(t)
		}
		m.TAIList = d.opt("tai", 7, 112)
		m.AllowedNSSAI = d.opt("allowed", 2, 72)
		m.ServiceAreaList = d.opt("sal", 4, 112)
		m.FullName = d.opt("full", 1, 255)
		m.ShortName = d.opt("short", 1, 255)
		m.LocalTimeZone = d.opt("tz", 1, 1)
		m.UniversalTime = d.opt("utime", 7, 7)
		m.DaylightSaving = d.opt("dst", 1, 1)
		m.LADNInformation = d.opt("ladn", 0, 1712)
		m.MICO = d.nib("mico")
		m.NetworkSlicingInd = d.nib("nsi")
		m.ConfiguredNSSAI = d.opt("configured", 2, 144)
		m.RejectedNSSAI = d.opt("rejected", 2, 40)
		m.OperatorAccessCategories = d.opt("odac", 0, 300)
		m.SMSIndication = d.nib("sms")
		return &dlMsg{CUC: m}
	case "dl:DLNASTransport":
		m := &refnas.DLNASTransport{SHT: sht, PayloadType: 1}
		switch rapid.IntRange(0, 3).Draw(t, "payload_kind") {
		case 0:
			m.Payload, _ = drawRelCmd(t).Encode()
		case 1:
			m.PayloadType = uint8(rapid.IntRange(2, 15).Draw(t, "payload_type")) // not N1 SM information: opaque payload
			m.Payload = d.bytes("payload", 1, 3000)
		default:
			m.Payload, _ = drawEstAcc(t).Encode()
		}
		m.PSI = d.opt("psi2", 1, 1)
		m.AdditionalInfo = d.opt("addinfo", 1, 255)
		m.Cause = d.opt("cause5gmm", 1, 1)
		m.Backoff = d.opt("backoff5gmm", 1, 1)
		return &dlMsg{DLNAS: m}
	case "dl:PDUSessionEstablishmentAccept":
		return &dlMsg{EstAcc: drawEstAcc(t)}
	case "dl:PDUSessionReleaseCommand":
		return &dlMsg{RelCmd: drawRelCmd(t)}
	case "dl:ServiceAccept":
		return &dlMsg{SvcAcc: &refnas.ServiceAccept{SHT: sht, PDUSessionStatus: d.opt("pdustatus", 2, 32), ReactivationResult: d.opt("react", 2, 32),
			ReactivationErrorCause: d.opt("reacterr", 2, 512), EAP: d.opt("eap", 4, 1500)}}
	}
	return &dlMsg{Dereg: true}
}

func b2u(b bool) uint8 {
	if b {
		return 1
	}
	return 0
}

// chk collects field comparisons.
type chk struct{ errs []string }

func (c *chk) u(what string, got, want interface{}) {
	if !reflect.DeepEqual(got, want) {
		c.errs = append(c.errs, fmt.Sprintf("%s = %v, intended %v", what, got, want))
	}
}
func (c *chk) b(what string, got, want []byte) {
	if !bytes.Equal(got, want) {
		c.errs = append(c.errs, fmt.Sprintf("%s = %s, intended %s", what, short(got), short(want)))
	}
}

// bit n (8 = most significant) of octet o
func bit(o byte, n uint) uint8 { return o >> (n - 1) & 1 }

func c09DL(c c09Case, vd *ev.Verdict, fail failer) ev.Verdict {
	d := c.DL
	var enc []byte
	var err error
	var name string
	switch {
	case d.AuthReq != nil:
		enc, err = d.AuthReq.Encode()
		name = "AuthenticationRequest"
	case d.SMC != nil:
		enc, err = d.SMC.Encode()
		name = "SecurityModeCommand"
	case d.RegAcc != nil:
		enc, err = d.RegAcc.Encode()
		name = "RegistrationAccept"
	case d.CUC != nil:
		enc, err = d.CUC.Encode()
		name = "ConfigurationUpdateCommand"
	case d.DLNAS != nil:
		enc, err = d.DLNAS.Encode()
		name = "DLNASTransport"
	case d.EstAcc != nil:
		enc, err = d.EstAcc.Encode()
		name = "PDUSessionEstablishmentAccept"
	case d.RelCmd != nil:
		enc, err = d.RelCmd.Encode()
		name = "PDUSessionReleaseCommand"
	case d.SvcAcc != nil:
		enc, err = d.SvcAcc.Encode()
		name = "ServiceAccept"
	case d.Dereg:
		enc = refnas.EncodeDeregistrationAccept()
		name = "DeregistrationAcceptUEOriginatingDeregistration"
	default:
		vd.Skip = true
		return *vd
	}
	if err != nil {
		vd.Skip = true // the drawn values have no encoding (e.g. a value too long for its length field)
		return *vd
	}
	vd.Hash = ev.HashBytes(enc)
	msg, errs := decodeAndCheck(name, enc)
	if len(errs) > 0 {
		return fail(errs[0].key, "%s (bytes %s)", errs[0].msg, short(enc))
	}
	ck := &chk{}
	switch {
	case d.AuthReq != nil:
		m, g := d.AuthReq, msg.GmmMessage.AuthenticationRequest
		ck.u("ngKSI", g.SpareHalfOctetAndNgksi.GetNasKeySetIdentifiler(), m.KSI)
		ck.u("TSC", g.SpareHalfOctetAndNgksi.GetTSC(), b2u(m.TSC))
		ck.b("ABBA", g.ABBA.GetABBAContents(), m.ABBA)
		if m.RAND != nil {
			r := g.AuthenticationParameterRAND.GetRANDValue()
			ck.b("RAND", r[:], m.RAND)
			// the accessors the emulator itself uses (stgutg/ue.go)
			r2 := g.GetRANDValue()
			ck.b("RAND (promoted accessor)", r2[:], m.RAND)
		}
		if m.AUTN != nil {
			a := g.AuthenticationParameterAUTN.GetAUTN()
			ck.b("AUTN", a[:], m.AUTN)
		}
		if m.EAP != nil {
			ck.b("EAP message", g.EAPMessage.GetEAPMessage(), m.EAP)
		}
		vd.NT = m.KSI != 0 && !bytes.Equal(m.ABBA, []byte{0, 0})
	case d.SMC != nil:
		m, g := d.SMC, msg.GmmMessage.SecurityModeCommand
		ck.u("ciphering algorithm", g.SelectedNASSecurityAlgorithms.GetTypeOfCipheringAlgorithm(), m.Ciphering)
		ck.u("integrity algorithm", g.SelectedNASSecurityAlgorithms.GetTypeOfIntegrityProtectionAlgorithm(), m.Integrit)
		ck.u("ngKSI", g.SpareHalfOctetAndNgksi.GetNasKeySetIdentifiler(), m.KSI)
		ck.u("TSC", g.SpareHalfOctetAndNgksi.GetTSC(), b2u(m.TSC))
		sc, _ := refnas.ParseUESecurityCapability(m.ReplayedUESecCap)
		rc := &g.ReplayedUESecurityCapabilities
		ck.u("replayed capability length", rc.GetLen(), uint8(len(m.ReplayedUESecCap)))
		ck.u("5G-EA0..3", []uint8{rc.GetEA0_5G(), rc.GetEA1_128_5G(), rc.GetEA2_128_5G(), rc.GetEA3_128_5G()},
			[]uint8{bit(sc.EA5G, 8), bit(sc.EA5G, 7), bit(sc.EA5G, 6), bit(sc.EA5G, 5)})
		ck.u("5G-EA4..7", []uint8{rc.GetEA4_5G(), rc.GetEA5_5G(), rc.GetEA6_5G(), rc.GetEA7_5G()},
			[]uint8{bit(sc.EA5G, 4), bit(sc.EA5G, 3), bit(sc.EA5G, 2), bit(sc.EA5G, 1)})
		ck.u("5G-IA0..3", []uint8{rc.GetIA0_5G(), rc.GetIA1_128_5G(), rc.GetIA2_128_5G(), rc.GetIA3_128_5G()},
			[]uint8{bit(sc.IA5G, 8), bit(sc.IA5G, 7), bit(sc.IA5G, 6), bit(sc.IA5G, 5)})
		ck.u("5G-IA4..7", []uint8{rc.GetIA4_5G(), rc.GetIA5_5G(), rc.GetIA6_5G(), rc.GetIA7_5G()},
			[]uint8{bit(sc.IA5G, 4), bit(sc.IA5G, 3), bit(sc.IA5G, 2), bit(sc.IA5G, 1)})
		if sc.EEA != nil {
			ck.u("EEA0..3", []uint8{rc.GetEEA0(), rc.GetEEA1_128(), rc.GetEEA2_128(), rc.GetEEA3_128()},
				[]uint8{bit(*sc.EEA, 8), bit(*sc.EEA, 7), bit(*sc.EEA, 6), bit(*sc.EEA, 5)})
		}
		if sc.EIA != nil {
			ck.u("EIA0..3", []uint8{rc.GetEIA0(), rc.GetEIA1_128(), rc.GetEIA2_128(), rc.GetEIA3_128()},
				[]uint8{bit(*sc.EIA, 8), bit(*sc.EIA, 7), bit(*sc.EIA, 6), bit(*sc.EIA, 5)})
		}
		if m.IMEISVRequest != nil {
			ck.u("IMEISV request value", g.IMEISVRequest.GetIMEISVRequestValue(), m.IMEISVRequest[0]&7)
		}
		if m.EPSAlgorithms != nil {
			// TS 24.301 9.9.3.23: bits 7..5 ciphering, bits 3..1 integrity
			ck.u("EPS ciphering", g.SelectedEPSNASSecurityAlgorithms.GetTypeOfCipheringAlgorithm(), m.EPSAlgorithms[0]>>4&7)
			ck.u("EPS integrity", g.SelectedEPSNASSecurityAlgorithms.GetTypeOfIntegrityProtectionAlgorithm(), m.EPSAlgorithms[0]&7)
		}
		if m.Additional5GSecInfo != nil {
			// 9.11.3.12: bit 2 RINMR, bit 1 HDP
			ck.u("RINMR", g.Additional5GSecurityInformation.GetRINMR(), bit(m.Additional5GSecInfo[0], 2))
			ck.u("HDP", g.Additional5GSecurityInformation.GetHDP(), bit(m.Additional5GSecInfo[0], 1))
		}
		if m.EAP != nil {
			ck.b("EAP message", g.EAPMessage.GetEAPMessage(), m.EAP)
		}
		if m.ABBA != nil {
			ck.b("ABBA", g.ABBA.GetABBAContents(), m.ABBA)
		}
		if m.ReplayedS1UESecCap != nil {
			ck.u("replayed S1 EEA0", g.ReplayedS1UESecurityCapabilities.GetEEA0(), bit(m.ReplayedS1UESecCap[0], 8))
			ck.u("replayed S1 EIA0", g.ReplayedS1UESecurityCapabilities.GetEIA0(), bit(m.ReplayedS1UESecCap[1], 8))
		}
		vd.NT = m.Ciphering != 0 && m.Integrit != 2 && m.KSI != 0
		vd.Classes = append(vd.Classes, fmt.Sprintf("smc:nea%d", m.Ciphering&3))
	case d.RegAcc != nil:
		m, g := d.RegAcc, msg.GmmMessage.RegistrationAccept
		// 9.11.3.6: bit 4 SMS allowed, bits 3..1 5GS registration result value
		ck.u("registration result value", g.RegistrationResult5GS.GetRegistrationResultValue5GS(), m.Result[0]&7)
		ck.u("SMS allowed", g.RegistrationResult5GS.GetSMSAllowed(), bit(m.Result[0], 4))
		if m.GUTI != nil {
			checkGUTI(ck, g.GUTI5G, m.GUTI)
		}
		if m.AllowedNSSAI != nil {
			ck.b("allowed NSSAI", g.AllowedNSSAI.GetSNSSAIValue(), m.AllowedNSSAI)
		}
		if m.TAIList != nil {
			ck.b("TAI list", g.TAIList.GetPartialTrackingAreaIdentityList(), m.TAIList)
		}
		if m.T3512 != nil {
			// GPRS timer 3, TS 24.008 10.5.7.4a: bits 8..6 unit, bits 5..1 value
			ck.u("T3512 unit", g.T3512Value.GetUnit(), m.T3512[0]>>5)
			ck.u("T3512 value", g.T3512Value.GetTimerValue(), m.T3512[0]&0x1F)
		}
		if m.T3502 != nil {
			ck.u("T3502", g.T3502Value.GetGPRSTimer2Value(), m.T3502[0])
		}
		if m.NetworkFeatureSupport != nil {
			// 9.11.3.5 octet 3: MPSI IWK-N26 EMF(2) EMC(2) IMS-VoPS-N3GPP IMS-VoPS-3GPP
			o := m.NetworkFeatureSupport[0]
			nf := g.NetworkFeatureSupport5GS
			ck.u("MPSI", nf.GetMPSI(), bit(o, 8))
			ck.u("IWK N26", nf.GetIWKN26(), bit(o, 7))
			ck.u("EMF", nf.GetEMF(), o>>4&3)
			ck.u("EMC", nf.GetEMC(), o>>2&3)
			ck.u("IMS-VoPS-N3GPP", nf.GetIMSVoPSN3GPP(), bit(o, 2))
			ck.u("IMS-VoPS-3GPP", nf.GetIMSVoPS3GPP(), bit(o, 1))
		}
		if m.MICO != nil {
			ck.u("MICO RAAI", g.MICOIndication.GetRAAI(), m.MICO[0]&1)
		}
		if m.PDUSessionStatus != nil {
			checkPSI(ck, "PDU session status", reflect.ValueOf(g.PDUSessionStatus), m.PDUSessionStatus)
		}
		if m.ReactivationResult != nil {
			checkPSI(ck, "PDU session reactivation result", reflect.ValueOf(g.PDUSessionReactivationResult), m.ReactivationResult)
		}
		if m.EAP != nil {
			ck.b("EAP message", g.EAPMessage.GetEAPMessage(), m.EAP)
		}
		if m.SOR != nil {
			ck.b("SOR", g.SORTransparentContainer.GetSORContent(), m.SOR)
		}
		vd.NT = m.GUTI != nil && m.AllowedNSSAI != nil
	case d.CUC != nil:
		m, g := d.CUC, msg.GmmMessage.ConfigurationUpdateCommand
		if m.Indication != nil {
			// 9.11.3.18: bit 2 RED, bit 1 ACK
			ck.u("ACK", g.ConfigurationUpdateIndication.GetACK(), m.Indication[0]&1)
			ck.u("RED", g.ConfigurationUpdateIndication.GetRED(), m.Indication[0]>>1&1)
		}
		if m.GUTI != nil {
			checkGUTI(ck, g.GUTI5G, m.GUTI)
		}
		if m.LocalTimeZone != nil {
			ck.u("time zone", g.LocalTimeZone.GetTimeZone(), m.LocalTimeZone[0])
		}
		if m.UniversalTime != nil {
			u := g.UniversalTimeAndLocalTimeZone
			ck.b("universal time", []byte{u.GetYear(), u.GetMonth(), u.GetDay(), u.GetHour(), u.GetMinute(), u.GetSecond(), u.GetTimeZone()}, m.UniversalTime)
		}
		if m.FullName != nil {
			// TS 24.008 10.5.3.5a octet 3: ext, coding scheme (3), add CI, spare bits (3); text from octet 4
			ck.u("full name coding scheme", g.FullNameForNetwork.GetCodingScheme(), m.FullName[0]>>4&7)
			ck.b("full name text", g.FullNameForNetwork.GetTextString(), m.FullName[1:])
		}
		if m.SMSIndication != nil {
			ck.u("SMS availability", g.SMSIndication.GetSAI(), m.SMSIndication[0]&1)
		}
		if m.MICO != nil {
			ck.u("MICO RAAI", g.MICOIndication.GetRAAI(), m.MICO[0]&1)
		}
		vd.NT = m.GUTI != nil || m.FullName != nil
	case d.DLNAS != nil:
		m, g := d.DLNAS, msg.GmmMessage.DLNASTransport
		ck.u("payload container type", g.SpareHalfOctetAndPayloadContainerType.GetPayloadContainerType(), m.PayloadType)
		ck.b("payload container", g.PayloadContainer.GetPayloadContainerContents(), m.Payload)
		if m.PSI != nil {
			ck.u("PDU session ID", g.PduSessionID2Value.GetPduSessionID2Value(), m.PSI[0])
		}
		if m.Cause != nil {
			ck.u("5GMM cause", g.Cause5GMM.GetCauseValue(), m.Cause[0])
		}
		if m.Backoff != nil {
			ck.u("back-off unit", g.BackoffTimerValue.GetUnitTimerValue(), m.Backoff[0]>>5)
			ck.u("back-off value", g.BackoffTimerValue.GetTimerValue(), m.Backoff[0]&0x1F)
		}
		if m.AdditionalInfo != nil {
			ck.b("additional information", g.AdditionalInformation.Buffer, m.AdditionalInfo)
		}
		// the N1 SM message inside decodes on its own (what tglib hands on)
		if m.PayloadType == 1 && len(m.Payload) >= 4 && m.Payload[0] == 0x2E {
			in, _ := refnas.Identify(m.Payload)
			if in != nil {
				if _, err := in.Parse(m.Payload); err != nil {
					in = nil // not a well-formed 5GSM message by the table: nothing to claim about it
				}
			}
			if in != nil {
				if _, es := decodeAndCheck(in.Name, g.PayloadContainer.GetPayloadContainerContents()); len(es) > 0 {
					return fail("payload:"+es[0].key, "N1 SM payload: %s", es[0].msg)
				}
				vd.Classes = append(vd.Classes, "payload:"+in.Name)
			}
		}
		vd.NT = m.PSI != nil && len(m.Payload) > 255
	case d.EstAcc != nil:
		checkEstAcc(ck, d.EstAcc, msg)
		vd.NT = d.EstAcc.PDUAddress != nil && len(d.EstAcc.QoSRules) >= 256
		if d.EstAcc.PDUAddress != nil {
			vd.Classes = append(vd.Classes, fmt.Sprintf("pdu-address-type:%d", d.EstAcc.PDUAddress[0]&7))
		}
	case d.RelCmd != nil:
		m, g := d.RelCmd, msg.GsmMessage.PDUSessionReleaseCommand
		ck.u("PDU session ID", g.PDUSessionID.GetPDUSessionID(), m.PSI)
		ck.u("PTI", g.PTI.GetPTI(), m.PTI)
		ck.u("5GSM cause", g.Cause5GSM.GetCauseValue(), m.Cause)
		if m.Backoff != nil {
			ck.u("back-off unit", g.BackoffTimerValue.GetUnitTimerValue(), m.Backoff[0]>>5)
			ck.u("back-off value", g.BackoffTimerValue.GetTimerValue(), m.Backoff[0]&0x1F)
		}
		if m.EAP != nil {
			ck.b("EAP message", g.EAPMessage.GetEAPMessage(), m.EAP)
		}
		if m.EPCO != nil {
			ck.b("ePCO", g.ExtendedProtocolConfigurationOptions.GetExtendedProtocolConfigurationOptionsContents(), m.EPCO)
		}
		vd.NT = m.PSI != 0 && m.Cause != 0
	case d.SvcAcc != nil:
		m, g := d.SvcAcc, msg.GmmMessage.ServiceAccept
		if m.PDUSessionStatus != nil {
			checkPSI(ck, "PDU session status", reflect.ValueOf(g.PDUSessionStatus), m.PDUSessionStatus)
		}
		if m.ReactivationResult != nil {
			checkPSI(ck, "PDU session reactivation result", reflect.ValueOf(g.PDUSessionReactivationResult), m.ReactivationResult)
		}
		if m.ReactivationErrorCause != nil {
			ck.b("reactivation error cause", g.PDUSessionReactivationResultErrorCause.GetPDUSessionIDAndCauseValue(), m.ReactivationErrorCause)
		}
		if m.EAP != nil {
			ck.b("EAP message", g.EAPMessage.GetEAPMessage(), m.EAP)
		}
		vd.NT = m.PDUSessionStatus != nil || m.ReactivationResult != nil
	case d.Dereg:
		vd.NT = true
	}
	if len(ck.errs) > 0 {
		return fail("accessor:"+firstWord(ck.errs[0]), "%s (bytes %s)", ck.errs[0], short(enc))
	}
	return *vd
}

func firstWord(s string) string {
	for i := 0; i < len(s); i++ {
		if s[i] == '=' {
			return s[:i-1]
		}
	}
	return s
}

func checkGUTI(ck *chk, g *nasTypeGUTI, want []byte) {
	id, err := refnas.ParseMobileIdentity(want)
	if err != nil {
		ck.errs = append(ck.errs, "harness GUTI = "+err.Error())
		return
	}
	ck.u("GUTI type of identity", g.GetTypeOfIdentity(), uint8(refnas.IDGUTI))
	mcc := string([]byte{'0' + g.GetMCCDigit1(), '0' + g.GetMCCDigit2(), '0' + g.GetMCCDigit3()})
	mnc := string([]byte{'0' + g.GetMNCDigit1(), '0' + g.GetMNCDigit2()})
	if g.GetMNCDigit3() != 0xF {
		mnc += string([]byte{'0' + g.GetMNCDigit3()})
	}
	ck.u("GUTI MCC", mcc, id.MCC)
	ck.u("GUTI MNC", mnc, id.MNC)
	ck.u("GUTI AMF region", g.GetAMFRegionID(), id.AMFRegionID)
	ck.u("GUTI AMF set", g.GetAMFSetID(), id.AMFSetID)
	ck.u("GUTI AMF pointer", g.GetAMFPointer(), id.AMFPointer)
	t := g.GetTMSI5G()
	ck.u("GUTI 5G-TMSI", uint32(t[0])<<24|uint32(t[1])<<16|uint32(t[2])<<8|uint32(t[3]), id.TMSI)
}

// checkPSI: PDU session status style bitmaps (9.11.3.44): octet 3 PSI(7)..PSI(0) in bits
// 8..1, octet 4 PSI(15)..PSI(8).
func checkPSI(ck *chk, what string, ie reflect.Value, want []byte) {
	for i := 0; i < 16; i++ {
		got := uint8(ie.MethodByName(fmt.Sprintf("GetPSI%d", i)).Call(nil)[0].Uint())
		w := want[i/8] >> uint(i%8) & 1
		if got != w {
			ck.errs = append(ck.errs, fmt.Sprintf("%s PSI(%d) = %d, intended %d", what, i, got, w))
			return
		}
	}
}

func checkEstAcc(ck *chk, m *refnas.PDUSessionEstablishmentAccept, msg *nas.Message) {
	g := msg.GsmMessage.PDUSessionEstablishmentAccept
	ck.u("PDU session ID", g.PDUSessionID.GetPDUSessionID(), m.PSI)
	ck.u("PTI", g.PTI.GetPTI(), m.PTI)
	ck.u("selected PDU session type", g.SelectedSSCModeAndSelectedPDUSessionType.GetPDUSessionType(), m.PDUType&7)
	ck.u("selected SSC mode", g.SelectedSSCModeAndSelectedPDUSessionType.GetSSCMode(), m.SSCMode&7)
	ck.b("authorized QoS rules", g.AuthorizedQosRules.GetQosRule(), m.QoSRules)
	a, _ := refnas.ParseSessionAMBR(m.AMBR)
	ck.u("session-AMBR DL unit", g.SessionAMBR.GetUnitForSessionAMBRForDownlink(), a.DLUnit)
	ck.u("session-AMBR DL", g.SessionAMBR.GetSessionAMBRForDownlink(), [2]uint8{byte(a.DL >> 8), byte(a.DL)})
	ck.u("session-AMBR UL unit", g.SessionAMBR.GetUnitForSessionAMBRForUplink(), a.ULUnit)
	ck.u("session-AMBR UL", g.SessionAMBR.GetSessionAMBRForUplink(), [2]uint8{byte(a.UL >> 8), byte(a.UL)})
	if m.Cause != nil {
		ck.u("5GSM cause", g.Cause5GSM.GetCauseValue(), m.Cause[0])
	}
	if m.PDUAddress != nil {
		pa, _ := refnas.ParsePDUAddress(m.PDUAddress)
		ck.u("PDU address type", g.PDUAddress.GetPDUSessionTypeValue(), pa.Type)
		info := g.PDUAddress.GetPDUAddressInformation()
		switch pa.Type {
		case 1:
			ck.b("PDU address IPv4", info[:4], pa.IPv4[:])
		case 2:
			ck.b("PDU address interface identifier", info[:8], pa.IID[:])
		case 3:
			ck.b("PDU address interface identifier", info[:8], pa.IID[:])
			ck.b("PDU address IPv4 (v4v6)", info[8:12], pa.IPv4[:])
		}
	}
	if m.RQTimer != nil {
		ck.u("RQ timer unit", g.RQTimerValue.GetUnit(), m.RQTimer[0]>>5)
		ck.u("RQ timer value", g.RQTimerValue.GetTimerValue(), m.RQTimer[0]&0x1F)
	}
	if m.SNSSAI != nil {
		s, _ := refnas.ParseSNSSAI(m.SNSSAI)
		ck.u("S-NSSAI length", g.SNSSAI.GetLen(), uint8(len(m.SNSSAI)))
		ck.u("S-NSSAI SST", g.SNSSAI.GetSST(), s.SST)
		if s.SD != nil {
			ck.u("S-NSSAI SD", g.SNSSAI.GetSD(), *s.SD)
		}
	}
	if m.AlwaysOn != nil {
		ck.u("always-on indication", g.AlwaysonPDUSessionIndication.GetAPSI(), m.AlwaysOn[0]&1)
	}
	if m.MappedEPSBearers != nil {
		ck.b("mapped EPS bearer contexts", g.MappedEPSBearerContexts.GetMappedEPSBearerContext(), m.MappedEPSBearers)
	}
	if m.EAP != nil {
		ck.b("EAP message", g.EAPMessage.GetEAPMessage(), m.EAP)
	}
	if m.QoSFlowDescriptions != nil {
		ck.b("QoS flow descriptions", g.AuthorizedQosFlowDescriptions.GetQoSFlowDescriptions(), m.QoSFlowDescriptions)
	}
	if m.EPCO != nil {
		ck.b("ePCO", g.ExtendedProtocolConfigurationOptions.GetExtendedProtocolConfigurationOptionsContents(), m.EPCO)
	}
	if m.DNN != nil {
		want, _ := refnas.ParseDNN(m.DNN)
		ck.b("DNN raw", g.DNN.Buffer, m.DNN)
		_ = want
	}
}

type nasTypeGUTI = nasType.GUTI5G

type keyed struct{ key, msg string }

// decodeAndCheck decodes bytes with the library and verifies generically, by the table, that
// exactly the IEs on the wire are present in the Go struct with exactly their contents.
func decodeAndCheck(name string, enc []byte) (*nas.Message, []keyed) {
	b := bindingOf(name)
	if b == nil || len(b.issues) > 0 {
		return nil, []keyed{{"structure:" + name, "table and Go type disagree"}}
	}
	p, err := b.def.Parse(enc)
	if err != nil {
		return nil, []keyed{{"harness:" + name, "hand-written encoder output does not parse by the table: " + err.Error()}}
	}
	msg, err := b.decode(enc)
	if err != nil {
		return nil, []keyed{{"decode-error:" + name, "PlainNasDecode: " + err.Error()}}
	}
	if err := b.onlyHolder(msg); err != nil {
		return nil, []keyed{{"dispatch:" + name, err.Error()}}
	}
	in := b.inner(msg).Elem()
	for i := range b.def.Mand {
		got := extractVal(in.Field(b.mandIdx[i]), b.mandSh[i], b.def.Mand[i].Fmt)
		if !bytes.Equal(got, p.Mand[i]) {
			return nil, []keyed{{"field:" + name + "/" + b.def.Mand[i].Go, fmt.Sprintf("mandatory %q holds %s, wire has %s", b.def.Mand[i].Name, short(got), short(p.Mand[i]))}}
		}
	}
	present := map[int]bool{}
	for _, ie := range p.Opts {
		k := b.def.OptIndex(ie.Opt)
		present[k] = true
		f := in.Field(b.optIdx[k])
		if f.IsNil() {
			return nil, []keyed{{"field:" + name + "/" + ie.Opt.Go, fmt.Sprintf("IE %q (IEI %#x) on the wire but Go field %s is nil", ie.Opt.Name, ie.IEI, ie.Opt.Go)}}
		}
		got := extractVal(f.Elem(), b.optSh[k], ie.Opt.Fmt)
		if !bytes.Equal(got, ie.Val) {
			return nil, []keyed{{"field:" + name + "/" + ie.Opt.Go, fmt.Sprintf("IE %q: Go field holds %s, wire has %s", ie.Opt.Name, short(got), short(ie.Val))}}
		}
	}
	for k := range b.def.Opts {
		if !present[k] && !in.Field(b.optIdx[k]).IsNil() {
			return nil, []keyed{{"field:" + name + "/" + b.def.Opts[k].Go, fmt.Sprintf("Go field %s set although the IE is not on the wire", b.def.Opts[k].Go)}}
		}
	}
	return msg, nil
}
