package pc

// C08 — the NAS message codec is lossless for all 45 message types.
//
// One generated wire-level message (gen_test.go) is put through all three parts at once:
//   (i)   struct -> PlainNasEncode -> PlainNasDecode -> equal struct
//   (ii)  table-encoded bytes (refnas, canonical order) -> decode -> encode == the same bytes
//   (iii) the same optional IEs in a permuted order decode to the same struct
// and TestC08_UnknownTypes covers (iv): message types outside the tables are errors.

import (
	"bytes"
	"fmt"
	"io"
	"testing"

	"free5gclib/nas"
	naslogger "free5gclib/nas/logger"
	"github.com/sirupsen/logrus"
	"pgregory.net/rapid"

	"verifh/ev"
	"verifh/refnas"
)

func c08Classes(b *binding, c *wireCase) (cls []string, nt bool) {
	cls = append(cls, "msg:"+c.Msg)
	k := len(b.def.Opts)
	switch {
	case k == 0:
		cls = append(cls, "opts:message-has-none")
	case len(c.Opts) == 0:
		cls = append(cls, "opts:none-present")
	case len(c.Opts) == k:
		cls = append(cls, "opts:all-present")
	default:
		cls = append(cls, "opts:proper-subset")
		nt = true
	}
	for _, o := range c.Opts {
		i := b.optIndexByIEI(o.IEI)
		if i < 0 {
			continue
		}
		od := &b.def.Opts[i]
		cls = append(cls, "fmt:"+od.Fmt.String())
		if od.Unadjudicated != "" {
			cls = append(cls, "ie:unadjudicated-iei(library's value used)")
		}
		switch od.Fmt {
		case refnas.TV1:
			if o.Val[0] >= 8 {
				cls = append(cls, "nibble:high-bit-set")
			} else {
				cls = append(cls, "nibble:high-bit-clear")
			}
		case refnas.TLV, refnas.TLVE:
			lo, hi := b.optRange(i)
			if lo < hi {
				switch len(o.Val) {
				case lo:
					cls = append(cls, "len:min")
					nt = true
				case hi:
					cls = append(cls, "len:max")
					nt = true
				case lo + 1:
					cls = append(cls, "len:min+1")
				case hi - 1:
					cls = append(cls, "len:max-1")
				}
			}
			if len(o.Val) == 0 {
				cls = append(cls, "len:0")
			}
			if len(o.Val) > 255 {
				cls = append(cls, "len:>255")
			}
		}
	}
	for i := range b.def.Mand {
		m := &b.def.Mand[i]
		if m.Fmt == refnas.LV || m.Fmt == refnas.LVE {
			cls = append(cls, "fmt:"+m.Fmt.String())
			lo, hi := b.mandRange(i)
			if lo < hi && (len(c.Mand[i]) == lo || len(c.Mand[i]) == hi) {
				cls = append(cls, "len:mandatory-min/max")
				nt = true
			}
		}
		if m.Fmt == refnas.HalfV && m.Fixed < 0 {
			cls = append(cls, "fmt:half-octet-pair")
		}
	}
	if len(c.Perm) > 0 {
		cls = append(cls, "perm")
	}
	if c.Twin {
		cls = append(cls, "framing-twin")
		nt = true
	}
	return
}

func permuted(v *refnas.Value, perm []int) (*refnas.Value, bool) {
	if len(perm) != len(v.Opts) {
		return nil, false
	}
	seen := make([]bool, len(perm))
	ident := true
	w := &refnas.Value{Def: v.Def, Mand: v.Mand}
	for i, p := range perm {
		if p < 0 || p >= len(perm) || seen[p] {
			return nil, false
		}
		seen[p] = true
		if p != i {
			ident = false
		}
		w.Opts = append(w.Opts, v.Opts[p])
	}
	return w, !ident
}

func c08Oracle(c wireCase) (v ev.Verdict) {
	lg := naslogger.SecurityLog.Logger
	if lv, err := logrus.ParseLevel(c.Log); err == nil && c.Log != "" {
		old, oldOut := lg.GetLevel(), lg.Out
		lg.SetLevel(lv)
		lg.SetOutput(io.Discard)
		defer func() { lg.SetLevel(old); lg.SetOutput(oldOut) }()
	}
	v = c08Oracle0(c)
	if c.Log != "" {
		v.Classes = append(v.Classes, "nas-log-level:"+c.Log)
		if v.Err != nil {
			v.Key = "loglevel-" + c.Log + ":" + v.Key
		}
	}
	return v
}

func c08Oracle0(c wireCase) ev.Verdict {
	b, v, err := c.value()
	if err != nil {
		// a structural disagreement is C09's finding; here the case is outside what can be built
		return ev.Verdict{Skip: true, Classes: []string{"skip:" + c.Msg}}
	}
	cls, nt := c08Classes(b, &c)
	vd := ev.Verdict{NT: nt, Classes: cls}
	plain := func(key, format string, a ...interface{}) ev.Verdict {
		vd.Key, vd.Err = key, fmt.Errorf(format, a...)
		return vd
	}
	// every failure is keyed by its root cause when one element can be blamed (see attribute)
	fail := func(key, format string, a ...interface{}) ev.Verdict {
		if f := attribute(b, v); f != "" {
			key = "layout:" + c.Msg + "/" + f
		}
		return plain(key, format, a...)
	}

	// (i) struct -> encode -> decode -> equal
	msg, err := b.build(v)
	if err != nil {
		return fail("build:"+c.Msg, "cannot build the library struct: %v", err)
	}
	enc, err := b.encode(msg)
	if err != nil {
		return fail("encode-error:"+c.Msg, "PlainNasEncode: %v", err)
	}
	encSnap := append([]byte{}, enc...) // what the encoder returned, at the moment it returned
	dec, err := b.decode(enc)
	if err != nil {
		return fail("decode-error:"+c.Msg, "PlainNasDecode of the library's own encoding (%s): %v", short(enc), err)
	}
	if d := diffMsg(msg, dec); d != "" {
		return fail("roundtrip:"+c.Msg+"/"+fieldOfPath(d, c.Msg), "(i) decode(encode(m)) differs from m at %s; encoding %s", d, short(enc))
	}

	// (ii) table-encoded bytes in canonical order -> decode -> encode reproduces the bytes
	sp, ref, err := b.spans(v)
	if err != nil {
		return fail("harness:"+c.Msg, "reference encoder: %v", err)
	}
	vd.Hash = ev.HashBytes(append(append([]byte{}, ref...), byte(len(c.Perm))))
	dec2, err := b.decode(ref)
	if err != nil {
		return fail("decode-error:"+c.Msg, "(ii) PlainNasDecode of a well-formed message (%s): %v", short(ref), err)
	}
	re, err := b.encode(dec2)
	if err != nil {
		return fail("encode-error:"+c.Msg, "(ii) PlainNasEncode of a decoded message: %v", err)
	}
	if !bytes.Equal(re, ref) {
		who, at := culprit(sp, ref, re)
		key := "reencode:" + c.Msg + "/" + who
		// root cause: the first element (wire order) at which decoding or re-encoding a prefix
		// of the message goes wrong — a layout disagreement, keyed as in C09; the byte offset or
		// the struct order alone may point at an innocent neighbour
		if f := attribute(b, v); f != "" {
			who = f
		}
		return fail(key, "(ii) encode(decode(bytes)) differs from the bytes at offset %d (element %s): in %s… out %s… (lengths %d / %d)",
			at, who, short(ref[min(at, len(ref)):]), short(re[min(at, len(re)):]), len(ref), len(re))
	}

	// (iii) permuted optional IEs decode to the same struct
	if w, ok := permuted(v, c.Perm); ok {
		vd.Hash = ev.HashBytes(append(append([]byte{}, ref...), permBytes(c.Perm)...))
		_, pb, err := b.spans(w)
		if err != nil {
			return fail("harness:"+c.Msg, "reference encoder (permuted): %v", err)
		}
		dec3, err := b.decode(pb)
		if err != nil {
			return fail("decode-error:"+c.Msg, "(iii) PlainNasDecode of permuted IEs: %v", err)
		}
		if d := diffMsg(dec2, dec3); d != "" {
			key := "permute:" + c.Msg + "/" + fieldOfPath(d, c.Msg)
			return fail(key, "(iii) IE order %v decodes differently from table order at %s", c.Perm, d)
		}
		vd.Classes = append(vd.Classes, "perm:non-identity")
	}

	// a receiver that is used again: the same nas.Message value first receives another message of this type, then
	// this one; it must then hold this one, as a fresh receiver does
	if c.Prev != nil && b.dispatchable() {
		if _, pv, perr := c.Prev.value(); perr == nil {
			if _, prevRef, perr := b.spans(pv); perr == nil {
				m := nas.NewMessage()
				var e1, e2 error
				_, site := ev.Guard(func() error {
					p1 := append([]byte{}, prevRef...)
					e1 = m.PlainNasDecode(&p1)
					p2 := append([]byte{}, ref...)
					e2 = m.PlainNasDecode(&p2)
					return nil
				})
				if site != "" {
					return plain("reused-receiver:panic:"+site, "decoding two %s messages into one nas.Message panicked", c.Msg)
				}
				if e1 == nil {
					vd.Classes = append(vd.Classes, "reused-receiver")
					if e2 != nil {
						return plain("reused-receiver:error", "a nas.Message that had received another %s refuses this one: %v", c.Msg, e2)
					}
					if d := diffMsg(dec2, m); d != "" {
						return plain("reused-receiver:stale-content", "a nas.Message that had received another %s (%s) and then this one (%s) differs from a fresh receiver at %s", c.Msg, short(prevRef), short(ref), d)
					}
				}
			}
		}
	}

	// results stay what they were: the bytes and the message obtained in (i) are still held here while
	// the codec has meanwhile been used for this message again (ii, iii) and is now used for other
	// messages; a result that a LATER call of the library rewrites was never a function of its arguments
	interfere()
	if !bytes.Equal(enc, encSnap) {
		return plain("retained:encoding-overwritten-by-a-later-call", "the bytes PlainNasEncode returned for this message (%s) read %s after later encode/decode calls for other messages", short(encSnap), short(enc))
	}
	if d := diffMsg(msg, dec); d != "" {
		return plain("retained:decoded-message-changed-by-a-later-call", "the message PlainNasDecode returned differs from the original at %s after later encode/decode calls for other messages", d)
	}
	return vd
}

// interfere uses the codec for two unrelated messages (a REGISTRATION COMPLETE carrying a 40-octet SOR
// transparent container and a 5GSM STATUS), the way any caller handling several UEs does.
func interfere() {
	for _, raw := range [][]byte{
		append([]byte{0x7e, 0x00, 0x43, 0x73, 0x00, 0x28}, bytes.Repeat([]byte{0xa5}, 40)...),
		{0x2e, 0x05, 0x00, 0xd6, 0x6f},
	} {
		_, _ = ev.Guard(func() error {
			in := append([]byte{}, raw...)
			m := nas.NewMessage()
			if err := m.PlainNasDecode(&in); err != nil {
				return err
			}
			_, err := m.PlainNasEncode()
			return err
		})
	}
}

// attribute finds the root cause of a failure: the message is rebuilt IE by IE in table
// order; the first prefix that the library does not decode to the expected struct, or does
// not re-encode to the same bytes, names its last element. "" = every prefix is fine.
func attribute(b *binding, v *refnas.Value) string {
	for j := 0; j <= len(v.Opts); j++ {
		sub := &refnas.Value{Def: v.Def, Mand: v.Mand, Opts: v.Opts[:j]}
		name := ""
		if j > 0 {
			if k := b.optIndexByIEI(v.Opts[j-1].IEI); k >= 0 {
				name = b.def.Opts[k].Go
			}
		}
		want, err := b.build(sub)
		if err != nil {
			return name
		}
		_, ref, err := b.spans(sub)
		if err != nil {
			return name
		}
		bad := func() (bad bool) {
			defer func() {
				if recover() != nil {
					bad = true
				}
			}()
			dec, err := b.decode(ref)
			if err != nil {
				return true
			}
			if d := diffMsg(want, dec); d != "" {
				if j == 0 {
					name = fieldOfPath(d, b.def.Name)
				}
				return true
			}
			re, err := b.encode(dec)
			return err != nil || !bytes.Equal(re, ref)
		}()
		if bad {
			if name == "" {
				name = "mandatory-part"
			}
			return name
		}
	}
	return ""
}

func permBytes(p []int) []byte {
	out := make([]byte, len(p))
	for i, x := range p {
		out[i] = byte(x)
	}
	return out
}

func TestC08_RoundTrip(t *testing.T) {
	r := ev.New(t, "C08", "TestC08_RoundTrip")
	r.Extra("message_types", len(usable()))
	ev.Run(t, r, genWire, c08Oracle)
}

// TestC08_Subsets: for every message with k <= 10 optional IEs all 2^k subsets are taken
// (exhaustive over presence), contents and lengths drawn per seed; repeated ev.N times.
func TestC08_Subsets(t *testing.T) {
	r := ev.New(t, "C08", "TestC08_Subsets")
	if ev.Replay() != "" { // ./check C08 --replay FILE: evaluate the saved case only
		ev.Run(t, r, genWire, c08Oracle)
		return
	}
	defer r.Flush()
	reps := ev.N(24, 2400)
	subsets := 0
	for rep := 0; rep < reps; rep++ {
		for mi, b := range usable() {
			k := len(b.def.Opts)
			if k > 10 {
				continue
			}
			for mask := 0; mask < 1<<uint(k); mask++ {
				in := make([]bool, k)
				for i := range in {
					in[i] = mask>>uint(i)&1 == 1
				}
				bb := b
				c := rapid.Custom(func(rt *rapid.T) wireCase { return drawWire(rt, bb, in) }).
					Example(int(ev.Seed()%1000003)*7919 + rep*104729 + mi*1031 + mask)
				subsets++
				if !r.Each(t, c, ev.SafeOracle(c08Oracle, c)) {
					return
				}
			}
		}
	}
	r.Extra("subsets_enumerated", subsets)
}

// ---------------------------------------------------------------------------------------
// (iv) message types outside the 45 are reported as errors, for both EPDs.

type c08Unknown struct {
	EPD  uint8    `json:"epd"`
	O2   uint8    `json:"o2"`  // second octet (security header type / PDU session ID)
	PTI  uint8    `json:"pti"` // 5GSM only
	MT   uint8    `json:"mt"`
	Tail hexBytes `json:"tail"`
}

func (c c08Unknown) bytes() []byte {
	if c.EPD == refnas.EPD5GSM {
		return append([]byte{c.EPD, c.O2, c.PTI, c.MT}, c.Tail...)
	}
	return append([]byte{c.EPD, c.O2, c.MT}, c.Tail...)
}

func c08UnknownOracle(c c08Unknown) ev.Verdict {
	vd := ev.Verdict{NT: true}
	b := c.bytes()
	m := nas.NewMessage()
	cp := append([]byte{}, b...)
	err := m.PlainNasDecode(&cp)
	switch c.EPD {
	case refnas.EPD5GMM, refnas.EPD5GSM:
		d := refnas.Lookup(c.EPD, c.MT)
		if d != nil {
			vd.Classes = []string{fmt.Sprintf("epd:%#x/known-type", c.EPD)}
			vd.NT = false
			if err != nil {
				vd.Key, vd.Err = "known-type-refused:"+d.Name, fmt.Errorf("message type %#x (%s) refused: %v", c.MT, d.Title, err)
			}
			return vd
		}
		vd.Classes = []string{fmt.Sprintf("epd:%#x/unknown-type", c.EPD)}
		if err == nil {
			vd.Key = fmt.Sprintf("unknown-type-accepted:%#x/%#x", c.EPD, c.MT)
			vd.Err = fmt.Errorf("PlainNasDecode accepted %s: message type %#x is not in Table 9.7.%d", short(b), c.MT, map[uint8]int{0x7E: 1, 0x2E: 2}[c.EPD])
			return vd
		}
		// the encoder must refuse it as well
		e := nas.NewMessage()
		if c.EPD == refnas.EPD5GMM {
			e.GmmMessage = nas.NewGmmMessage()
			e.GmmHeader.SetMessageType(c.MT)
		} else {
			e.GsmMessage = nas.NewGsmMessage()
			e.GsmHeader.SetMessageType(c.MT)
		}
		if _, err := e.PlainNasEncode(); err == nil {
			vd.Key = fmt.Sprintf("unknown-type-encoded:%#x/%#x", c.EPD, c.MT)
			vd.Err = fmt.Errorf("PlainNasEncode accepted message type %#x for EPD %#x", c.MT, c.EPD)
		}
	default:
		vd.Classes = []string{"epd:other"}
		if err == nil {
			vd.Key, vd.Err = "unknown-epd-accepted", fmt.Errorf("PlainNasDecode accepted extended protocol discriminator %#x (%s)", c.EPD, short(b))
		}
	}
	return vd
}

func TestC08_UnknownTypes(t *testing.T) {
	r := ev.New(t, "C08", "TestC08_UnknownTypes")
	if ev.Replay() != "" {
		ev.Run(t, r, func(*rapid.T) c08Unknown { return c08Unknown{} }, c08UnknownOracle)
		return
	}
	defer r.Flush()
	reps := ev.N(8, 80)
	known := 0
	for rep := 0; rep < reps; rep++ {
		for _, epd := range []int{0x7E, 0x2E, -1} {
			for mt := 0; mt < 256; mt++ {
				e, m := epd, mt
				c := rapid.Custom(func(rt *rapid.T) c08Unknown {
					c := c08Unknown{EPD: uint8(e), MT: uint8(m)}
					if e < 0 {
						c.EPD = rapid.Uint8().Filter(func(x uint8) bool { return x != 0x7E && x != 0x2E }).Draw(rt, "epd")
					}
					c.O2 = rapid.Uint8().Draw(rt, "o2")
					if c.EPD == refnas.EPD5GMM {
						c.O2 &= 0x0F
					}
					c.PTI = rapid.Uint8().Draw(rt, "pti")
					if d := refnas.Lookup(c.EPD, c.MT); d != nil && e >= 0 {
						// a known type: complete it to a well-formed minimal message
						v := refnas.NewValue(d)
						enc, _ := v.Encode()
						hl := 3
						if c.EPD == refnas.EPD5GSM {
							hl = 4
						}
						c.O2, c.PTI = 0, 0
						c.Tail = enc[hl:]
					} else {
						c.Tail = drawBytes(rt, rapid.IntRange(0, 40).Draw(rt, "tail_len"), "tail")
					}
					return c
				}).Example(int(ev.Seed()%1000003)*31 + rep*65537 + (epd+2)*257 + mt)
				if refnas.Lookup(c.EPD, c.MT) != nil {
					known++
				}
				if !r.Each(t, c, ev.SafeOracle(c08UnknownOracle, c)) {
					return
				}
			}
		}
	}
	r.Extra("known_types_per_sweep", known/reps)
}
