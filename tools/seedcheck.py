#!/usr/bin/env python3
"""Confirm a seeded change delivered by an independent sub-agent and run the checks against it.

  tools/seedcheck.py <outdir> <name> [--props C03,C04] [--tier quick|thorough|both] [--keep-name]

<outdir> holds patch.diff, meta.json and the demonstration file(s) (as written by the seeding agent).
Steps, all in scratch copies of /repo's HEAD outside /repo and /verif:
  1. unchanged copy + demo  -> demo must PASS
  2. patched copy: builds, the 93-test suite passes, demo must FAIL
  3. run ./check <prop> (VERIF_REPO=patched copy) for each property -> killed?
The confirmed change is stored as /verif/seeded/<name>/ (patch.diff, demo files, meta.json with what was run)."""
import json, os, shutil, subprocess, sys, tempfile, time, glob

V = os.path.dirname(os.path.dirname(os.path.abspath(__file__)))
ENV = dict(os.environ, GOPROXY="off", GOSUMDB="off", GOTOOLCHAIN="local", GOFLAGS="")


def sh(cmd, cwd, timeout=1800):
    r = subprocess.run(cmd, cwd=cwd, shell=True, env=ENV, capture_output=True, text=True, timeout=timeout)
    return r.returncode, (r.stdout + r.stderr)


def copy_repo(dst):
    subprocess.run(["rsync", "-a", "--exclude", ".git", "--exclude", "/stgutgmain", "/repo/", dst + "/"], check=True)


def main():
    a = sys.argv[1:]
    out, name = a[0], a[1]
    props = None; tier = "quick"
    i = 2
    while i < len(a):
        if a[i] == "--props": props = a[i + 1].split(","); i += 2
        elif a[i] == "--tier": tier = a[i + 1]; i += 2
        else: i += 1
    meta = json.load(open(os.path.join(out, "meta.json")))
    props = props or [meta["property"]]
    demo = meta["demo"]
    place = demo["place_at"] if isinstance(demo["place_at"], list) else [demo["place_at"]]
    files = [f for f in os.listdir(out) if f.endswith(".go") and os.path.isfile(os.path.join(out, f))]
    work = tempfile.mkdtemp(prefix="verif-seed-")
    res = {"name": name, "ran_at": time.strftime("%Y-%m-%dT%H:%M:%SZ", time.gmtime()), "steps": {}}
    try:
        clean, pat = os.path.join(work, "clean"), os.path.join(work, "patched")
        copy_repo(clean); copy_repo(pat)
        rc, o = sh("patch -p1 -s < %s" % os.path.join(out, "patch.diff"), pat)
        if rc != 0:
            print("PATCH DOES NOT APPLY:\n" + o); return 3
        def put_demo(root):
            for f in files:
                # place_at names either a file path or a directory
                target = None
                for p in place:
                    p = p.replace("/tmp/seed-%s/" % meta["property"], "").lstrip("/")
                    if p.endswith(f):
                        target = os.path.join(root, p)
                    elif os.path.isdir(os.path.join(root, p)):
                        target = os.path.join(root, p, f)
                if target is None:
                    target = os.path.join(root, place[0].replace("/tmp/seed-%s/" % meta["property"], "").lstrip("/"), f)
                os.makedirs(os.path.dirname(target), exist_ok=True)
                shutil.copy(os.path.join(out, f), target)
        put_demo(clean)
        import re
        run = demo["run"].replace("/tmp/seed-%s" % meta["property"], "@ROOT@").replace("<worktree>", "@ROOT@")
        run = re.sub(r"\s+\(optionally.*$", "", run)
        def run_demo(root):
            cmd = run.replace("@ROOT@", root)
            if "@ROOT@" not in run and not cmd.startswith("cd "):
                cmd = "cd %s && %s" % (root, cmd)
            return sh(cmd, root)
        rc, o = run_demo(clean)
        res["steps"]["demo_on_unchanged"] = {"exit": rc, "tail": o[-600:]}
        print("demo on unchanged tree: exit", rc)
        if rc != 0:
            print(o[-1500:]); print("REJECTED: demonstration does not pass on the unchanged tree"); return 4
        rc, o = sh("go build ./... && (cd src/free5gclib && go build ./...) && (cd src/stgutg && go build ./...) && (cd src/tglib && go build ./...)", pat)
        res["steps"]["build"] = {"exit": rc}
        if rc != 0:
            print(o[-1500:]); print("REJECTED: patched tree does not build"); return 5
        rc, o = sh("cd src/free5gclib && go test -vet=off -count=1 ./... 2>&1 | grep -v 'no test files'", pat)
        res["steps"]["suite"] = {"exit": rc, "tail": o[-300:]}
        if rc != 0 or "FAIL" in o:
            print(o[-1500:]); print("REJECTED: existing suite fails on the patched tree"); return 6
        put_demo(pat)
        rc, o = run_demo(pat)
        res["steps"]["demo_on_patched"] = {"exit": rc, "tail": o[-900:]}
        print("demo on patched tree: exit", rc)
        if rc == 0:
            print("REJECTED: demonstration does not fail with the change"); return 7
        # remove the demo files again: the checks run against source only
        for root in (pat,):
            for f in files:
                for p in glob.glob(os.path.join(root, "**", f), recursive=True):
                    os.remove(p)
        res["checks"] = {}
        tiers = ["quick", "thorough"] if tier == "both" else [tier]
        for prop in props:
            for t in tiers:
                if t == "thorough" and res["checks"].get(prop + "@quick", {}).get("killed"):
                    continue
                t0 = time.time()
                env = dict(os.environ, VERIF_REPO=pat, VERIF_REPLAY_DIR=os.path.join(work, "replays"), VERIF_EVIDENCE_DIR=os.path.join(work, "ev"))
                r = subprocess.run([os.path.join(V, "check"), prop, "--tier", t], env=env, capture_output=True, text=True)
                viol = [l for l in r.stdout.splitlines() if l.startswith("VIOLATION")]
                keyl = next((l for l in r.stdout.splitlines() if "key=" in l), "")
                errl = ""
                ls = r.stdout.splitlines()
                for k, l in enumerate(ls):
                    if "key=" in l and k + 1 < len(ls):
                        errl = ls[k + 1][:400]; break
                res["checks"][prop + "@" + t] = {"exit": r.returncode, "killed": r.returncode == 1 and bool(viol), "wall_s": round(time.time() - t0, 1), "key": keyl[:200], "error": errl}
                print("check %s %s: %s exit=%d %.0fs %s" % (prop, t, "KILLED" if res["checks"][prop + "@" + t]["killed"] else "MISSED", r.returncode, time.time() - t0, keyl[:160]), flush=True)
                if r.returncode == 2:
                    print(r.stdout[-1500:])
        dst = os.path.join(V, "seeded", name)
        os.makedirs(dst, exist_ok=True)
        shutil.copy(os.path.join(out, "patch.diff"), dst)
        for f in files:
            shutil.copy(os.path.join(out, f), dst)
        meta["confirmed_by_coordinator"] = res
        json.dump(meta, open(os.path.join(dst, "meta.json"), "w"), indent=1)
        return 0
    finally:
        shutil.rmtree(work, ignore_errors=True)


if __name__ == "__main__":
    sys.exit(main())
