#!/usr/bin/env python3
"""Regenerate /verif/MANIFEST.json from checks.json (single source of truth) and validate it."""
import json, os, subprocess, sys
V = os.path.dirname(os.path.dirname(os.path.abspath(__file__)))
import glob
checks = {}
for _p in sorted(glob.glob(os.path.join(V, "checks.d", "*.json"))):
    checks.update(json.load(open(_p)))
props = [json.loads(l) for l in open(os.path.join(V, "properties.jsonl"))]
hook_commits = ["4bb4399"]
m = {
    "version": 1,
    "setup_cmd": "./setup.sh",
    "hooks": {
        "guard": "verif",
        "enable": "go build -tags verif (only the emulator binary used by C01/C02/C18/C19 is built with the tag; the hook replaces tglib.ConnectToAmf by a version that adopts an inherited socket)",
        "baseline_off_cmd": "for m in . src/free5gclib src/stgutg src/tglib; do (cd /repo/$m && GOFLAGS= GOPROXY=off go test -vet=off -count=1 ./...) || exit 1; done",
        "source_commits": hook_commits,
        "add_only": True,
    },
    "engines": [{"name": "check", "path": "/verif/check", "serves_properties": sorted(checks.keys()),
                 "kind_free_text": "python driver: snapshots /repo's working tree, builds the Go harness (rapid v1.3.0 property tests + native fuzz targets + reference implementations) against it, runs sharded test processes, merges evidence"}],
    "checks": [],
    "not_applicable": [],
    "notes": "Technique family: property-based testing and fuzzing. See DESIGN.md. KNOWN_FINDINGS.json lists fixed/known defects.",
}
for p in props:
    pid = p["id"]
    c = checks.get(pid)
    if not c or c.get("disabled"):
        m["not_applicable"].append({"property_id": pid, "reason": (c or {}).get("disabled", "check not built yet in this session (planned in DESIGN.md section 5)")})
        continue
    m["checks"].append({
        "property_id": pid,
        "quick_cmd": "./check %s --tier quick" % pid,
        "thorough_cmd": "./check %s --tier thorough" % pid,
        "evidence_file": "/verif/evidence/%s.json" % pid,
        "replay_cmd_template": "./check %s --replay {path}" % pid,
        "engine": "check",
        "level_claimed": {"category": c["level"], "text": c.get("level_text", c["rule"]), "design_ref": c.get("design_ref", "DESIGN.md section 5, " + pid)},
        "level_note": c.get("level_note", "; ".join(c.get("assumptions", [])) or "see DESIGN.md"),
        "technique": c.get("technique", "property-based testing (rapid) against an independent reference oracle"),
    })
json.dump(m, open(os.path.join(V, "MANIFEST.json"), "w"), indent=1)
try:
    import jsonschema
    jsonschema.validate(m, json.load(open("/root/.vp/MANIFEST.schema.json")))
    print("MANIFEST.json valid:", len(m["checks"]), "checks,", len(m["not_applicable"]), "not applicable")
except ImportError:
    print("jsonschema not importable; run with python3-vt to validate")
