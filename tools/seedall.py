#!/usr/bin/env python3
"""Run the quick tier of the owning check (and of any check named in meta.json "also") against every confirmed
seeded change under /verif/seeded and write seeded/RESULTS.json.   tools/seedall.py [name ...]"""
import json, os, shutil, subprocess, sys, tempfile, time, glob
V = os.path.dirname(os.path.dirname(os.path.abspath(__file__)))
names = sys.argv[1:] or sorted(os.path.basename(d) for d in glob.glob(os.path.join(V, "seeded", "*")) if os.path.isdir(d))
out_path = os.path.join(V, "seeded", "RESULTS.json")
results = json.load(open(out_path)) if os.path.exists(out_path) else {}
for name in names:
    d = os.path.join(V, "seeded", name)
    meta = json.load(open(os.path.join(d, "meta.json")))
    props = [meta["property"]] + [p for p in meta.get("also", []) if p != meta["property"]]
    work = tempfile.mkdtemp(prefix="verif-seedall-")
    try:
        pat = os.path.join(work, "repo")
        subprocess.run(["rsync", "-a", "--exclude", ".git", "--exclude", "/stgutgmain", "/repo/", pat + "/"], check=True)
        r = subprocess.run("patch -p1 -s < %s" % os.path.join(d, "patch.diff"), cwd=pat, shell=True, capture_output=True, text=True)
        if r.returncode != 0:
            results[name] = {"error": "patch does not apply to the current tree: " + (r.stdout + r.stderr)[-300:]}
            print(name, "PATCH-FAILS"); continue
        res = {}
        for prop in props:
            t0 = time.time()
            env = dict(os.environ, VERIF_REPO=pat, VERIF_REPLAY_DIR=os.path.join(work, "replays"), VERIF_EVIDENCE_DIR=os.path.join(work, "ev"))
            r = subprocess.run([os.path.join(V, "check"), prop, "--tier", "quick"], env=env, capture_output=True, text=True, errors="replace")
            keyl = next((l for l in r.stdout.splitlines() if "failing case" in l and "key=" in l), "")
            res[prop] = {"exit": r.returncode, "killed": r.returncode == 1 and "VIOLATION" in r.stdout, "wall_s": round(time.time() - t0, 1), "key": keyl[keyl.find("key=") + 4:][:160] if keyl else ""}
            print(name, prop, "KILLED" if res[prop]["killed"] else "MISSED", res[prop]["key"][:100], flush=True)
        results[name] = {"property": meta["property"], "judged": meta.get("judged", "violation"), "checks": res, "at": time.strftime("%Y-%m-%dT%H:%M:%SZ", time.gmtime())}
        json.dump(results, open(out_path, "w"), indent=1, sort_keys=True)
    finally:
        shutil.rmtree(work, ignore_errors=True)
