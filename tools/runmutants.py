#!/usr/bin/env python3
"""Sensitivity runner: apply each deliberate mutation from mutants/mutants.json to a scratch copy of /repo,
run the property's check against it (VERIF_REPO), record killed / survived.

  tools/runmutants.py [--tier quick|thorough] [--baseline] [id ...]      (no ids = all)
Results are appended to mutants/results.json (keyed by id + tier)."""
import json, os, subprocess, sys, shutil, tempfile, time
V = os.path.dirname(os.path.dirname(os.path.abspath(__file__)))
args = sys.argv[1:]
tier = "quick"; baseline = False; ids = []
i = 0
while i < len(args):
    if args[i] == "--tier": tier = args[i+1]; i += 2
    elif args[i] == "--baseline": baseline = True; i += 1
    else: ids.append(args[i]); i += 1
muts = json.load(open(os.path.join(V, "mutants", "mutants.json")))
resp = os.path.join(V, "mutants", "results.json")
results = json.load(open(resp)) if os.path.exists(resp) else {}
for m in muts:
    if ids and m["id"] not in ids: continue
    work = tempfile.mkdtemp(prefix="verif-mut-")
    try:
        repo = os.path.join(work, "repo")
        subprocess.run(["rsync", "-a", "--exclude", ".git", "--exclude", "/stgutgmain", "/repo/", repo + "/"], check=True)
        ok = True
        for e in m["edits"]:
            p = os.path.join(repo, e["file"])
            s = open(p).read()
            if s.count(e["old"]) != e.get("count", 1):
                print("MUTANT %s: pattern occurs %d times in %s (want %d) — skipped" % (m["id"], s.count(e["old"]), e["file"], e.get("count", 1)))
                ok = False; break
            open(p, "w").write(s.replace(e["old"], e["new"]))
        if not ok: continue
        base = None
        if baseline:
            r = subprocess.run("cd %s/src/free5gclib && GOFLAGS= GOPROXY=off go test -vet=off -count=1 ./nas/... 2>&1 | tail -3" % repo, shell=True, capture_output=True, text=True)
            base = "ok" if "FAIL" not in r.stdout and r.returncode == 0 else "FAIL"
        out = {}
        for prop in m["props"]:
            t0 = time.time()
            env = dict(os.environ, VERIF_REPO=repo, VERIF_SEED=os.environ.get("VERIF_SEED", "1"), VERIF_REPLAY_DIR=os.path.join(work, "replays"))
            r = subprocess.run([os.path.join(V, "check"), prop, "--tier", tier], env=env, capture_output=True, text=True)
            viol = [l for l in r.stdout.splitlines() if l.startswith("VIOLATION")]
            out[prop] = {"exit": r.returncode, "killed": r.returncode == 1 and bool(viol), "wall_s": round(time.time() - t0, 1),
                         "first_key": next((l for l in r.stdout.splitlines() if "key=" in l), "")[:300]}
            print("MUTANT %-28s %s %s exit=%d %.0fs baseline=%s %s" % (m["id"], prop, "KILLED" if out[prop]["killed"] else "SURVIVED", r.returncode, time.time() - t0, base, out[prop]["first_key"][:120]), flush=True)
        results[m["id"] + "@" + tier] = {"desc": m["desc"], "baseline": base, "checks": out}
        json.dump(results, open(resp, "w"), indent=1)
        # replay files of mutant runs go to the scratch directory (VERIF_REPLAY_DIR), never to /verif/replays
    finally:
        shutil.rmtree(work, ignore_errors=True)
