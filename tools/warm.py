#!/usr/bin/env python3
import os, sys, tempfile, shutil, importlib.machinery, importlib.util
V = os.path.dirname(os.path.dirname(os.path.abspath(__file__)))
loader = importlib.machinery.SourceFileLoader("check", os.path.join(V, "check"))
spec = importlib.util.spec_from_loader("check", loader)
chk = importlib.util.module_from_spec(spec); loader.exec_module(chk)
work = tempfile.mkdtemp(prefix="verif-warm-")
try:
    snap = chk.snapshot(work)
    h = chk.prepare_harness(work, snap)
    for cfg in ({"needs_proc": True, "needs_main": True}, {"race": True}):
        try:
            chk.build(work, h, snap, cfg)
        except chk.Infra as e:
            print("warm-up build problem (checks will report it themselves):", str(e)[:2000])
    print("setup: build cache warmed")
finally:
    shutil.rmtree(work, ignore_errors=True)
